#!/bin/sh
# ./check.sh <property id> [quick|thorough]   — decide one property on /repo's working tree
# ./check.sh replay <replay file>             — re-run a stored counterexample replay
# ./check.sh selftest                         — must-fail / must-pass corpus
# ./check.sh lemmas                           — re-check the sum / prefix-set / pow2m1 lemma schemas in Lean
cd "$(dirname "$0")"
export GOPROXY=off GOSUMDB=off GOTOOLCHAIN=local GOWORK=off
if [ ! -x bin/govc ] || [ -n "$(find govc -name '*.go' -newer bin/govc -not -path 'govc/vendor/*' 2>/dev/null | head -1)" ]; then
  ./setup.sh || { echo "UNDECIDED setup failed"; exit 2; }
fi
case "$1" in
  replay) exec bin/govc replay "$2" ;;
  selftest) shift; exec python3 selftest/run.py "$@" ;;
  lemmas) cd lean && exec lean SumLemmas.lean ;;  # the lemma schemas behind the ground instances (Lean 4 + Mathlib, ~2-3 min)
esac
tier="${2:-${VERIF_TIER:-quick}}"
bin/govc check -prop "$1" -tier "$tier"
rc=$?
if [ "$tier" = thorough ] && [ $rc -eq 0 ] && [ -f selftest/run.py ]; then
  python3 selftest/run.py --prop "$1" --report-only || true
fi
exit $rc
