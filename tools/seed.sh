#!/bin/sh
# tools/seed.sh <prop> <id> <module-rel-dir (. or v2)> <pkg pattern> <demo destination relative to worktree> <run regex> <props to check...>
# Confirms a seeded change delivered by a sub-agent in /tmp/wt-<prop>, keeps it under /verif/seeded/<id>,
# runs the listed checks against it on /repo (apply, check, undo) and removes the worktree.
export GOFLAGS=-mod=mod GOPROXY=off GOSUMDB=off GOTOOLCHAIN=local
p=$1; id=$2; mod=$3; pkg=$4; dst=$5; run=$6; shift 6
wt=/tmp/wt-$p
cd $wt || exit 1
git status --short | grep -v seed/
cp seed/demo_test.go $wt/$dst
echo "== with change: demo"; (cd $wt/$mod && go test -vet=off -count=1 -run "$run" $pkg 2>&1 | tail -4)
git apply -R seed/patch.diff
echo "== without change: demo"; (cd $wt/$mod && go test -vet=off -count=1 -run "$run" $pkg 2>&1 | tail -3)
git apply seed/patch.diff; rm $wt/$dst
echo "== with change: suite"; (cd $wt/$mod && go test -vet=off -count=1 $pkg/... 2>&1 | tail -4)
mkdir -p /verif/seeded/$id && cp seed/patch.diff seed/demo_test.go seed/meta.json /verif/seeded/$id/
# SEED_REPO: a private checkout of /repo's HEAD to run the checks against (default: /repo itself)
R=${SEED_REPO:-/repo}
cd $R && git apply /verif/seeded/$id/patch.diff && cd /verif
for q in "$@"; do echo "== check $q"; VERIF_NOEVIDENCE=1 ./bin/govc check -repo $R -prop $q 2>&1 | grep -v "^NOTE" | tail -3; done
cd $R && git apply -R /verif/seeded/$id/patch.diff; git status --short | grep -v verif_contracts
git -C /repo worktree remove --force $wt; git -C /repo worktree prune
