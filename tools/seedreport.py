#!/usr/bin/env python3
"""Runs the registered checks against every seeded change under /verif/seeded (apply to /repo - or to the checkout named by SEED_REPO -, check, undo)
and records in each meta.json what was run and what was reported (key "builder")."""
import json, os, subprocess, glob, sys
EXTRA = {"C08": ["C20", "C03"], "C09": ["C10"], "C12": ["C04"], "C15": ["C01"], "C07": ["C17", "C02"], "C02": ["C07", "C17"],
         "C03": ["C08"], "C11": ["C03"], "C20": ["C08"], "C17": ["C07"], "C01": ["C17"]}
GOVC = os.environ.get('SEED_GOVC', '/verif/bin/govc')
R = os.environ.get('SEED_REPO', '/repo')  # a private checkout of /repo's HEAD may be given instead
def sh(cmd, **kw):
    return subprocess.run(cmd, shell=True, capture_output=True, text=True, **kw)
bad = 0
for d in sorted(glob.glob('/verif/seeded/*/')):
    meta_p = os.path.join(d, 'meta.json')
    meta = json.load(open(meta_p))
    prop = meta.get('property') or os.path.basename(d.rstrip('/')).split('-')[0]
    patch = os.path.join(d, 'patch.diff')
    r = sh(f'git -C {R} apply {patch}')
    if r.returncode != 0:
        print('cannot apply', d, r.stderr); bad += 1; continue
    try:
        res = {}
        for p in [prop] + EXTRA.get(prop, []):
            r = sh(f'VERIF_NOEVIDENCE=1 {GOVC} check -repo {R} -prop {p}', cwd='/verif')
            lines = [l for l in r.stdout.splitlines() if l.startswith(('VIOLATION', 'UNDECIDED', 'OK '))]
            res[p] = {"exit": r.returncode, "lines": [l.replace('/verif/replays/', 'replays/') for l in lines[:4]]}
    finally:
        sh(f'git -C {R} apply -R {patch}')
    caught = res[prop]["exit"] == 1
    meta["builder"] = {
        "confirmed": "in the sub-agent's scratch worktree: package suite passes with the change, demo fails with the change and passes without it (tools/seed.sh)",
        "checks_run": res,
        "reported_by_own_property_check": caught,
    }
    json.dump(meta, open(meta_p, 'w'), indent=1)
    print(os.path.basename(d.rstrip('/')), 'caught' if caught else 'MISSED', {k: v["exit"] for k, v in res.items()})
    bad += 0 if caught else 1
st = sh(f'git -C {R} status --short').stdout.strip()
print('repo status:', st or 'clean')
sys.exit(1 if bad else 0)
