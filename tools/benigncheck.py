#!/usr/bin/env python3
"""tools/benigncheck.py <dir with *.patch> : applies each behaviour-preserving patch to a scratch copy of
/repo's working tree and runs the checks of the properties anchored in the touched files; prints
the verdict per (patch, property). Nothing is written to /repo."""
import glob, os, re, shutil, subprocess, sys, tempfile, concurrent.futures
VERIF = os.path.dirname(os.path.dirname(os.path.abspath(__file__)))
MAP = [("v2/limit/", "C04 C12 C13 C20"), ("v2/join/unite/", "C03 C08 C09 C10 C11 C20"), ("v2/join/", "C03 C08 C09 C10 C20"),
       ("v2/priority/divider/", "C14"), ("v2/priority/utils/", "C18"), ("v2/priority/internal/common/", "C14 C15 C18"), ("v2/priority/", "C01 C02 C05 C06 C07 C15 C20"),
       ("priority/simple.go", "C02 C16 C20"), ("priority/utils.go", "C18"), ("priority/divider.go", "C14"),
       ("priority/internal/common/", "C14 C15 C18"), ("priority/", "C01 C02 C05 C06 C07 C15 C16 C17 C20"), ("join/", "C03 C08 C09 C10 C16 C20")]
def props_of(patch):
    out = []
    for l in open(patch):
        m = re.match(r"\+\+\+ b/(\S+)", l)
        if m:
            for pre, ps in MAP:
                if m.group(1).startswith(pre):
                    out += [p for p in ps.split() if p not in out]
                    break
    return out
def run(job):
    patch, prop = job
    tmp = tempfile.mkdtemp(prefix="govc-benign-")
    try:
        repo = os.path.join(tmp, "repo")
        subprocess.run(["rsync", "-a", "--exclude", ".git", "/repo/", repo + "/"], check=True)
        r = subprocess.run(["patch", "-p1", "-s", "-d", repo, "-i", patch], capture_output=True, text=True)
        if r.returncode != 0:
            return patch, prop, "PATCH-FAILED", r.stdout + r.stderr
        r = subprocess.run([os.path.join(VERIF, "bin", "govc"), "check", "-prop", prop, "-repo", repo, "-verif", VERIF],
                           capture_output=True, text=True, env=dict(os.environ, VERIF_NOEVIDENCE="1"))
        out = r.stdout + r.stderr
        lines = [l for l in out.splitlines() if not l.startswith("NOTE")]
        return patch, prop, {0: "GREEN", 1: "ALARM", 2: "UNDECIDED"}.get(r.returncode, "rc=%d" % r.returncode), "\n".join(lines[-6:])
    finally:
        shutil.rmtree(tmp, ignore_errors=True)
jobs = [(os.path.abspath(p), q) for p in sorted(glob.glob(os.path.join(sys.argv[1], "*.patch"))) for q in props_of(p)]
bad = 0
with concurrent.futures.ThreadPoolExecutor(max_workers=3) as ex:
    for patch, prop, verdict, out in ex.map(run, jobs):
        print("%-55s %s %s" % (os.path.basename(patch), prop, verdict))
        if verdict != "GREEN":
            bad += 1
            print("    " + out.replace("\n", "\n    "))
print("benigncheck: %d runs, %d not green" % (len(jobs), bad))
