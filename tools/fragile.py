#!/usr/bin/env python3
"""tools/fragile.py <prop> [seeds] [threshold_s]: regenerates every query of the property (no cache), then asks
z3 5.1.0 again with several seeds for each proof obligation and lists the obligations whose worst
time exceeds the threshold or that z3 5.1.0 does not prove with some seed (they depend on luck or on
the fallback solvers): candidates for restating. Scratch files live under a temporary directory."""
import os, subprocess, sys, tempfile, shutil, time, re, concurrent.futures
VERIF = os.path.dirname(os.path.dirname(os.path.abspath(__file__)))
prop = sys.argv[1]; seeds = int(sys.argv[2]) if len(sys.argv) > 2 else 3; thr = float(sys.argv[3]) if len(sys.argv) > 3 else 3.0
env = dict(os.environ, VERIF_KEEP="1", VERIF_NOEVIDENCE="1", VERIF_NOCACHE="1")
r = subprocess.run([os.path.join(VERIF, "bin", "govc"), "check", "-prop", prop, "-dump"], capture_output=True, text=True, env=env, cwd=VERIF)
m = re.search(r"queries kept in (\S+)", r.stdout)
if not m:
    print(r.stdout[-2000:]); sys.exit(2)
d = m.group(1)
print([l for l in r.stdout.splitlines() if l.startswith(("OK", "VIOLATION", "UNDECIDED"))])
rows = [l.rstrip("\n").split("\t") for l in open(os.path.join(d, "INDEX.tsv"))]
obl = {}
for f, kind, expect, status, ob in rows:
    if expect == "unsat" and os.path.exists(os.path.join(d, f)):
        obl.setdefault(f, (ob, status))
def run(f):
    worst, res = 0.0, []
    for sd in range(1, seeds + 1):
        t0 = time.time()
        try:
            out = subprocess.run(["z3-new", "-T:12", "smt.random_seed=%d" % sd, "sat.random_seed=%d" % sd, os.path.join(d, f)], capture_output=True, text=True, timeout=20).stdout
            a = out.split("\n", 1)[0].strip()
        except subprocess.TimeoutExpired:
            a = "timeout"
        dt = time.time() - t0
        worst = max(worst, dt); res.append("%s:%.1f" % (a, dt))
    return f, worst, res
bad = []
with concurrent.futures.ThreadPoolExecutor(max_workers=14) as ex:
    for f, worst, res in ex.map(run, sorted(obl)):
        if worst > thr or any(not x.startswith("unsat") for x in res):
            # do the fallback solvers prove it quickly and deterministically?
            fb = []
            for name, argv in (("cvc5", ["cvc5", "--tlimit=12000"]), ("z3-4.8", ["z3", "-T:12"])):
                t0 = time.time()
                try:
                    a = subprocess.run(argv + [os.path.join(d, f)], capture_output=True, text=True, timeout=20).stdout.split("\n", 1)[0].strip()
                except subprocess.TimeoutExpired:
                    a = "timeout"
                fb.append("%s=%s:%.1f" % (name, a, time.time() - t0))
            stable = any(("=unsat:" in x) and float(x.rsplit(":", 1)[1]) < thr for x in fb)
            if all(x.startswith("unsat") for x in res) and worst <= 2 * thr:
                stable = stable or worst <= thr
            bad.append((worst, ("fallback-ok " if stable else "FRAGILE ") + obl[f][0], obl[f][1], " ".join(res) + " | " + " ".join(fb), f))
for b in sorted(bad, reverse=True):
    print("%.1f\t%s\t[%s]\t%s" % b[:4])
print("fragile: %d of %d obligation queries" % (len(bad), len(obl)))
shutil.rmtree(d, ignore_errors=True)
