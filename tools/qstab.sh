#!/bin/sh
# tools/qstab.sh <dir with .smt2 files> [seeds] : worst z3-new time per query over several seeds
d=$1; n=${2:-6}
for f in $d/*.smt2; do
  worst=0; res=""
  for sd in $(seq 1 $n); do
    s=$(date +%s.%N); r=$(z3-new -T:20 smt.random_seed=$sd $f 2>/dev/null | head -1); e=$(date +%s.%N)
    t=$(echo "$e - $s" | bc); res="$res $r:$t"
    worst=$(echo "if ($t > $worst) $t else $worst" | bc)
  done
  echo "$worst $(basename $f)$res"
done | sort -rn | head -${3:-6}
