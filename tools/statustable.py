#!/usr/bin/env python3
"""Prints the 'status at a glance' table of DESIGN.md from the evidence files, the must-fail corpus and
the seeded changes (run after tools/refresh.sh)."""
import glob, json, os
V = os.path.dirname(os.path.dirname(os.path.abspath(__file__)))
BESIDES = {
    "C05": "trusted sort validated on a bounded scope; thorough: runs of the real v1/v2 disciplines",
    "C06": "bounded stand-ins for the liveness half (v1, v2)",
    "C14": "bounded stand-in: Rate within n/2 of the exact share",
    "C15": "trusted sort validated on a bounded scope",
    "C16": "stop rules SB (syntactic) and SE (path feasibility)",
    "C17": "trusted sort validated on a bounded scope",
    "C18": "bounded stand-ins: limit monotonicity, accepted by New",
    "C19": "not applicable (liveness of goroutine termination)",
    "C20": "confinement of struct fields over the typed AST",
}
print("| property | obligations (all discharged) | functions under contract in the slice | besides the proof obligations | mutants | seeds |")
print("|---|---|---|---|---|---|")
for i in range(1, 21):
    p = "C%02d" % i
    f = os.path.join(V, "evidence", p + ".json")
    if not os.path.exists(f):
        print(f"| {p} | - | - | {BESIDES.get(p, '-')} | - | - |")
        continue
    d = json.load(open(f))
    c = d["coverage"]
    ob = c.get("obligations", "-")
    fn = len(c.get("functions_under_contract") or [])
    mut = len(glob.glob(os.path.join(V, "selftest", "mutants", p, "*.patch")))
    seeds = len(glob.glob(os.path.join(V, "seeded", p + "-*")))
    print(f"| {p} | {ob} | {fn} | {BESIDES.get(p, '-')} | {mut} | {seeds} |")
