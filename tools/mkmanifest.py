#!/usr/bin/env python3
"""Writes /verif/MANIFEST.json from the table below (kept here so that the manifest stays
valid and consistent while properties are added)."""
import json, os, subprocess

ROOT = os.path.dirname(os.path.dirname(os.path.abspath(__file__)))
BASE = json.load(open('/root/.vp/BASELINE.json'))

TB = ("Trusted: govc (own Go-to-SMT VC generator over the typed AST of /repo) and the solvers z3 4.8.12 / z3 5.1.0 / cvc5 1.0; "
      "assumed contracts of external functions in specs/externals.spec; ")

CLAIMED = {
 "C04": dict(
   category="proof",
   text="The scheduling goroutine of the limit discipline (main/loop/transfer/pass/send/delay) is verified as a sequential program whose channel receives, clock readings and sleeps are adversarial events. The send-event hook requires the property's own formula: sent+1 <= Quantity*((clock-t0) div Interval + 1), proved from the loop invariants 'at most Quantity*k elements left before batch k' and 'batch k starts no earlier than t0+k*Interval' (from Since, Interval-duration, Sleep(d) lasts >= d). Holds for every arrival pattern and consumer speed because received values and blocking are unconstrained. The window form (W -> floor(W/Interval)+2) follows arithmetically from the same two invariants and is argued in DESIGN.md, not a separate obligation.",
   design_ref="DESIGN.md §7 C04",
   note=TB + "relative to the clock axioms: time.Now/Since monotonic, time.Sleep(d) lasts at least d, clock differences fit int64; 'left the output' = the discipline's send completed; ghost initial state and allocatable capacity are preconditions of New.",
   technique="contract-based deductive verification with ghost event hooks on channel/clock operations; loop invariants; z3/cvc5"),
 "C12": dict(
   category="proof",
   text="Ghost sequence gIn records every received element; the send hook requires v == gIn[gOutN] (no loss, duplication, reordering), the close hook requires 'input observed closed and gOutN == gInN', the Sleep hook requires 'a full batch of Quantity elements preceded it' and 'd <= Interval' (no pause below Quantity, no extra throttling). All for arbitrary element counts, rates, capacities and arrival patterns. Not decided: the wall-clock bound 'within about ceil(N/Quantity) Intervals' additionally needs Sleep not to oversleep (runtime).",
   design_ref="DESIGN.md §7 C12",
   note=TB + "Go channel FIFO/exactly-once semantics turn 'sequence received by the goroutine' into 'sequence written by producers'; time.Sleep accuracy is a runtime fact.",
   technique="contract-based deductive verification with ghost event hooks; loop invariants; z3/cvc5"),
 "C13": dict(
   category="proof",
   text="Contracts on Rate.IsValid/Recalculate/recalculateQuantity/Flatten/Optimize; the post-condition of Recalculate is the property statement (error => zero Rate and a permitted cause; success => valid, >= minimum, minimal, speed within rounding in product form). Loop-free code, full int64/uint64 domain, nonlinear integer arithmetic in the solvers: a complete proof, every path an obligation. Failing models are replayed on the real function via go test -overlay.",
   design_ref="DESIGN.md §7 C13, §8.1",
   note=TB + "math/big operations are the mathematical ones (assumed contract). Integers are mathematical in SMT with a proved no-overflow obligation at each conversion/operation.",
   technique="contract-based deductive verification: weakest-precondition style VCs from the typed Go AST, discharged by z3/cvc5"),
}

JOINFUNCS = "New, main, loop, loopUntimeouted, process, pass, send, prepareItem, resetJoin, resetPassAt, isTimeouted, calcInterruptInterval (+ forward in unite, + the stop/unreleased paths in v1) of v2/join, v2/join/unite and v1 join"
CLAIMED.update({
 "C03": dict(category="proof",
   text="Every function of the three join/unite goroutines is under contract (" + JOINFUNCS + "). Ghost sequence gIn records every received element; the send-event hook on the output channel requires: slice non-empty, length <= JoinSize (unite: > JoinSize only if it is exactly the pending input slice), contents equal gIn at the delivery position with no gap; the close hook requires 'input observed closed and everything delivered' (v1: or a stop was taken). The ticker case may fire at any select, inputs are arbitrary, so all arrival/timeout interleavings are covered. Slices, append (in place vs reallocation) and slices.Clone are modelled on a heap of backing arrays.",
   design_ref="DESIGN.md §7 C03, Appendix D",
   note=TB + "Go channel FIFO/exactly-once semantics; ghost initial state and allocatable sizes are preconditions of New.",
   technique='contract-based deductive verification with ghost event hooks on channel/clock operations and heap-ownership hooks; loop invariants; z3/cvc5'),
 "C08": dict(category="proof",
   text="Ownership proof: every heap write into a backing array (append in place, copy, element store) carries the obligation 'array not handed to the consumer (gOwned) and not on loan (gLent)'. Copy mode: the delivered array is the fresh result of slices.Clone, distinct from the buffer and from every earlier output (allocation counter). No-copy mode: the array is on loan from the send until the release receive; send requires nothing on loan, so no output in between. v1: after a stop while waiting for the release the loan is permanent (unreleased => gLent == buffer array) and process/pass must prove they neither write nor send.",
   design_ref="DESIGN.md §7 C08",
   note=TB + "granularity is whole backing arrays (the code never hands out a sub-slice); Go memory model for channel hand-off.",
   technique='contract-based deductive verification with ghost event hooks on channel/clock operations and heap-ownership hooks; loop invariants; z3/cvc5'),
 "C09": dict(category="proof",
   text="Send-event hook: without a timeout a slice is full (join: len == JoinSize; unite: len >= JoinSize or the pending input slice does not fit) unless the input was closed; with a timeout a non-maximal, non-final slice requires clock - lastDelivery >= Timeout, proved from isTimeouted's contract and the invariant lastDelivery <= passAt <= clock.",
   design_ref="DESIGN.md §7 C09",
   note=TB + "relative to the clock axioms (monotonic time.Now/Since).",
   technique='contract-based deductive verification with ghost event hooks on channel/clock operations and heap-ownership hooks; loop invariants; z3/cvc5'),
 "C10": dict(category="proof",
   text="Code-side lemmas of the flush bound, each a discharged obligation: (a) calcInterruptInterval returns interval > 0 with interval * floor(100/inaccuracy) <= timeout, exactly timeout div floor(100/inaccuracy), errors exactly in the documented cases (full domain, nonlinear arithmetic); (b) the timeout timer passAt is restarted only when the buffer is empty, so every buffered element was accepted at or after passAt; (c) isTimeouted is true iff clock - passAt >= Timeout and pass() then empties the buffer; (d) the ticker period is exactly interruptInterval. NOT decided: the wall-clock bound itself, which also needs the runtime to deliver ticks on time and select not to starve the ticker case.",
   design_ref="DESIGN.md §7 C10, §9",
   note=TB + "partial: the wall-clock bound rests on two runtime facts (timely ticks, fair select) that no contract can express.",
   technique='contract-based deductive verification with ghost event hooks on channel/clock operations and heap-ownership hooks; loop invariants; z3/cvc5'),
 "C11": dict(category="proof",
   text="Ghost input boundaries gB/gBprev (positions in the flattened input where the last two input slices end) are set by the receive event; the send hook requires that every output slice ends at one of them and that a big (>= JoinSize) input slice starts its own output; with C03's content clause this is contiguity of every input slice inside one output slice. Empty inputs produce no send event. The arrays of the received input slices are recorded (gInArr) and every heap write of the discipline carries the obligation that it does not go into one of them: the accumulation buffer is the discipline's own memory, a queued input slice cannot be overwritten (assumed of the producer: an input slice does not alias the discipline's buffer).",
   design_ref="DESIGN.md §7 C11",
   note=TB + "Go channel semantics.",
   technique='contract-based deductive verification with ghost event hooks on channel/clock operations and heap-ownership hooks; loop invariants; z3/cvc5'),
})

PRIOFUNCS = "the whole scheduling goroutine of v2/priority and v1 priority: New/prepare (v1: updateInputs, addPriority, addInput, removeInput, removePriority, clearActual), main, loop, base, waitCalcTactic, calcTactic, calcVacants, calcTacticByAddUpToStrategic, calcTacticBase, updateUncrowded, recalcTactic, updateUseful, updateUsefulLikeUncrowded, prioritize, io, iou, send, markInputAsDrained, increase/decreaseActual, decreaseTactic, resetTactic, getOneFeedback, getLimitedFeedback, waitZeroActual, isZeroActual, isDrainedInputs, safeDivide, safeCalcDistributionQuantity, calcDistributionQuantity"
GH2 = "contract-based deductive verification: ghost event hooks on channel operations, map-sum (msum) lemma instances, loop invariants, calls by contract; z3/cvc5"
CLAIMED.update({
 "C01": dict(category="proof",
   text="Ghost counter gInfl = (items sent on the output) - (releases consumed), changed only by the channel events themselves. The send-event hook requires gInfl < HandlersQuantity, i.e. the property statement; it is proved from the data-structure invariant msum(actual) == gInfl and the round invariant msum(actual) + msum(tactic) <= H carried through " + PRIOFUNCS + ". Releases arrive as arbitrary values at arbitrary receives, every select branch is explored, the divider is an untrusted function value checked only by safeDivide: so every interleaving, release order and arrival pattern is covered. v1: invariants re-proved across addInput/removeInput. The simplified disciplines (concurrent Handle calls) are NOT covered by this check (handlers are separate goroutines; see DESIGN.md).",
   design_ref="DESIGN.md §7 C01, Appendix A",
   note=TB + "a release is sent once per delivered item and only for delivered items (environment protocol); v1: the three unchecked divisions (updateInputs/addInput/removeInput call the divider without safeDivide) are assumed to obey the sum rule - the property's own hypothesis; one accumulation (picked += ...) is assumed not to wrap (listed in the evidence).",
   technique=GH2),
 "C07": dict(category="proof",
   text="Safety half: the close(output)/close(err) hooks (v2) and the breaker.Complete hook (v1, what makes GracefulStop/Stop return) require 'nothing in flight (gInfl == 0)' and 'every configured input was observed closed (ghost set gClosedIn, set only by a receive that returned !opened) or a divider fault / stop occurred'; the send hook on the error channel requires a divider fault, so with a sum-preserving divider no non-nil error is ever sent. NOT decided: that termination does happen promptly (liveness); the simplified disciplines' 'every Handle returned' clause.",
   design_ref="DESIGN.md §7 C07, §9",
   note=TB + "partial: 'only after' is proved, 'promptly' is not decidable by contracts; release protocol as for C01.",
   technique=GH2),
 "C14": dict(category="proof",
   text="Fair/FairDivider: for every distinct list, dividend and pre-filled map (sum + dividend < 2^64): msum' == msum + dividend; entry j gets exactly dividend div n + [j < dividend mod n]; every key outside the list unchanged. Rate/RateDivider: conservation and frame on all three exits, and - with float64 operations uninterpreted but monotone (assumed axioms) - increments non-increasing along a strictly descending list; and a functional post-condition over the spec term part(j) = uint(round(dividend/sum * P[j])): every priority after the first gets exactly part(j), or less than part(j) with nothing for the priorities after it (truncation); the first gets at least part(0) unless everything after it gets nothing; the first gets more than part(0) (the leftover) only if nobody was truncated. With conservation these clauses determine the result map, and v1 RateDivider and v2 Rate are proved against the same clauses over the same uninterpreted float term, so equal inputs give equal maps (same for Fair/FairDivider, whose post-condition is an explicit integer formula). Bounded stand-in (labelled bounded, not proved): 'each Rate increment within n/2 of the exact proportional share' is a floating-point rounding bound no solver here decides; it is checked on the real code with an exact rational oracle for lists of 1..5 (and one of 8) descending values and dividends 0..200 plus a few up to 2^32 (DESIGN.md 12.8).",
   design_ref="DESIGN.md §7 C14",
   note=TB + "float64 uninterpreted with monotonicity axioms for u2f/fmul/fround/f2u (specs/externals.spec); SumPriorities' accumulation assumed not to wrap.",
   technique="contract-based deductive verification: loop invariants over map sums and quantified per-entry facts; nonlinear integer arithmetic; z3/cvc5"),
 "C15": dict(category="proof",
   text="Calling convention: the contract of the function type Divider (priorities strictly descending, all configured, dividend <= HandlersQuantity, v2 distribution non-nil) is an obligation at every call through a Divider value; updateUncrowded/updateUseful/updateUsefulLikeUncrowded are proved to build strictly descending sub-lists. Fail-safe: the ghost flag gDivErr is defined by the divider-call hook from the map before/after the call (non-zero added total != dividend), safeDivide must return ErrDividerBad when it is set, every caller propagates it, the send hook requires !gDivErr (no delivery after a fault), the capacity bound of C01 is proved with the untrusted divider, close requires nothing in flight. Constructor (v2): a creation-time fault returns ErrDividerBad; every configured priority is in the priority list (set of list elements pset, grown at each append, preserved by the sort) and has a share >= 1 when the goroutine is started. Two genuine defects were found by these obligations and repaired (known_findings.txt).",
   design_ref="DESIGN.md §7 C15, §8.2, §8.5",
   note=TB + "v1: the unchecked divisions are assumed honest (see C01); SortPriorities (closure over sort.SliceStable) has a trusted contract.",
   technique=GH2),
 "C17": dict(category="proof",
   text="State transformers of v1 AddInput/RemoveInput: addInput ensures the channel is registered under the priority (replacing any previous one) with Drained reset; removeInput ensures the priority is gone from the inputs table and from the configured set, so - every input receive being on inputs[q].Channel with q configured - the removed channel is never read again; both leave the in-flight accounting (actual) untouched and re-establish the full discipline invariant (capacity, divider convention), i.e. across any sequence of add/replace/remove/re-add; removePriority (in-place filter) keeps order and removes exactly the priority. Every configured priority is in the priority list at all times (WF clause over the element set of the list; addPriority appends it, removePriority keeps every other element - proved with an existential invariant -, the sort preserves the set). The API side: AddInput / RemoveInput send exactly their arguments as the request (ghost copy of the sent request). Argued, not proved: 'on return' (the request channels are unbuffered and served by the scheduling goroutine before its next input receive).",
   design_ref="DESIGN.md §7 C17",
   note=TB + "see C01; hand-off by Go channel semantics.",
   technique=GH2),
})

CLAIMED.update({
 "C02": dict(category="proof",
   text="Per-priority ghost sequences gIn[p][0..gInN[p]) record every item received from the input registered under p (the receive is syntactically on inputs[p].Channel and p must be configured); the send hook on the output requires: an item is pending, it is delivered under the priority it was read under, it is the element just received, and its position is exactly gOutNP[p] (no gap, no duplicate, FIFO); a second receive while an item is pending is an obligation failure (a dropped item); between items and at close(output) / Complete every gOutNP[p] == gInN[p]. With Go channel FIFO semantics this is exactly-once, correctly tagged, in-order delivery of everything written before the inputs were closed. v1 under Stop/cancel: the weaker in-order, duplicate-free subsequence form. v1 Simple and v2 simple: a handler holds one item at a time, calls Handle exactly once for the received item and releases it under its own priority only after Handle returned; v2 simple.main starts exactly HandlersQuantity handlers.",
   design_ref="DESIGN.md §7 C02",
   note=TB + "Go channel FIFO/exactly-once; release protocol as for C01.",
   technique=GH2),
 "C16": dict(category="proof",
   text="Stop-responsiveness as ghost obligations over the v1 join, priority and Simple goroutines. Rule SB (syntactic over the typed AST): every operation that can block in the functions reachable from a goroutine entry is a select containing every stop role of that goroutine, a select with default, or is listed with the reason why it completes. Rule SE (symbolic execution + SMT feasibility): every feasible path through one iteration of an unbounded loop passes a poll of the stop signals whose stop branch leaves the loop (callee polls expose their outcome through contracts). Orderings: join closes its output before breaker.Complete(); priority sends nothing after Complete(); Simple calls priority.Stop(), cancel(), wg.Wait() before Complete() (no Handle running); whatever is delivered after a stop is an in-order duplicate-free subsequence (C02's weak form). Two genuine hangs were found by these rules, replayed on the real code and repaired. Under Go's random choice among ready select cases SB+SE give termination with probability 1; a numeric time bound is NOT decided.",
   design_ref="DESIGN.md §7 C16, Appendix B, §8.3, §8.4",
   note=TB + "assumes uniformly random select among ready cases, breaker.Break() returns once Complete() was called, Handle honours its context; the listed 'blocking-ok' reasons are assumptions reported in the evidence.",
   technique="contract-based deductive verification plus a stop-responsiveness rule decided by symbolic path feasibility (SMT) over the contracts; z3/cvc5"),
})

CLAIMED.update({
 "C20": dict(category="proof",
   text="The ownership discipline that excludes data races on library state for every interleaving, as obligations over the typed AST of all eight disciplines (v2 limit, join, unite, priority, simple; v1 join, priority, Simple): every struct field is classified confined or shared; a confined field may be accessed only by functions reachable from the goroutine entry (and by the constructor before its go statement) and by no function reachable from an API method; a shared field is never written after the go statement (channel operations and breaker calls are not writes). Together with C08's heap-write ownership obligations for delivered slices, every memory location the library touches is either owned by exactly one goroutine or immutable while shared, and hand-overs happen over channels (happens-before). A field the contract block does not name (added later) must satisfy one of the two disciplines at all of its accesses; hooked channel operations and watched calls made by goroutines without contract (named or function literals) are ownership obligations that fail by construction.",
   design_ref="DESIGN.md §3, §7 C20",
   note=TB + "the Go memory model (channel hand-off, sync.WaitGroup, context, breaker) is trusted; races in user code that violates the documented protocol are out of scope; this is a frame/ownership check decided syntactically on go/types, no solver involved.",
   technique="contract-based ownership/frame conditions (confined vs shared fields declared in the contract files) checked against the typed AST and call graph"),
})

CLAIMED.update({
 "C05": dict(category="proof",
   text="v2 and v1 priority disciplines. Environment of the property as assume-env clauses (listed in the evidence): every input has data waiting (a receive from an input never reports closed, the default case of io's select is not taken), inputs are buffered, the divider obeys the sum rule and the frame rule (what C14 proves of Fair and Rate); for v1 in addition the configuration is the one given to New (no AddInput / RemoveInput request is received) and no stop request is pending - C05 is quantified over release histories of a running discipline. Proved under it, for every order and grouping of releases: the send hook requires gInflP[p] < strategic[p] (never more than its share); invariant SAT (actual[p] <= strategic[p] for every listed p) between rounds and ROUND (actual[p] + tactic[p] == strategic[p]) inside a round; calcTacticByAddUpToStrategic provably succeeds with tactic == strategic - actual - this needs 'sum over the priority list == sum of the map', proved with prefix sets pset(P,i), the restricted sum msumR and the invariant picked == msumR(strategic, pset) - msumR(actual, pset); prioritize exhausts the tactic, recalcTactic redistributes a zero remainder, so base ends with actual[p] == strategic[p] for every p (every priority holds exactly its share). The tables the argument starts from (shares sum to HandlersQuantity over the sorted list, nothing in flight) are proved of v2 prepare and of v1 updateInputs as called by New. NOT covered: v1 histories with AddInput / RemoveInput or a pending Stop (after a stop request the remaining plan of a round is redistributed, shares are not meant to hold then).",
   design_ref="DESIGN.md §7 C05, §12.6",
   note=TB + "the saturation environment, the fixed configuration (v1) and the sum/frame rule of the divider are assumptions of the property itself.",
   technique=GH2),
 "C06": dict(category="proof",
   text="Safety core of progress for the v2 and v1 priority disciplines: (i) the two blocking waits for a release (getOneFeedback, waitZeroActual) carry the obligation gInfl > 0 evaluated before the receive - the discipline never waits for a release that cannot come; (ii) calcTactic is proved to return 'proceed' whenever nothing is in flight (uses the list-sum/map-sum link of C05: shares sum to HandlersQuantity over the priority list, so the add-up-to-strategic path succeeds), which is what (i) needs in waitCalcTactic; (iii) an input is skipped as drained only after it was observed closed (predicate DRAINED through prioritize / io / iou / AddInput / RemoveInput; a channel registered by AddInput is never marked drained) - no input that may still have data is ignored. Bounded stand-ins (labelled bounded, not proved; liveness): on the real v1 and v2 disciplines, with handlers that release every item, everything written is delivered and the discipline terminates, and a priority alone in having data (buffered inputs, nobody releasing) holds all HandlersQuantity handlers - 5 priority sets, Fair/Rate, HandlersQuantity 1..9, buffered and unbuffered inputs; plus runs in which the sole priority's data arrives in two instalments (at most its share, an idle pause, one more item) with nothing released (DESIGN.md 12.8, 12.4). NOT decided beyond that scope: eventual delivery and freedom from starvation over all histories.",
   design_ref="DESIGN.md §7 C06, §9, §12.6",
   note=TB + "partial: only the safety core; assumes a divider obeying the sum and frame rules (C14) and the release protocol of C01.",
   technique=GH2),
})

CLAIMED.update({
 "C18": dict(category="proof",
   text="Handler-quantity helpers of v2/priority/utils and v1 priority, relative to what the (arbitrary, possibly impure) divider answered during the call. (1) Subset enumeration: genCombinations / genPriorityCombinations are proved (nested loop invariants, pow2m1(n)=2^n-1) to return pow2m1(n) slices where, for every t<n, positions pow2m1(t)..2*pow2m1(t)-1 are copies of positions 0..pow2m1(t)-1 each extended by priorities[t] and position 2*pow2m1(t) is the singleton [priorities[t]] - by induction on t exactly every non-empty subset once, each in the order of the priorities slice; createSortedCopy is proved to return a fresh high-to-low sorted permutation (SortPriorities trusted). (2) Predicates: a call hook on every call through a Divider value records the priorities slice, the dividend and whether every listed priority got >= 1 unit; isNonFatalConfig returns true exactly when it divided `quantity` among every combination, in order, and each division was filled (false: the last division made was of `quantity` among the next combination and was not filled); isSuitableConfig true implies the same filledness facts (suitable => non-fatal); IsNonFatalConfig / IsSuitableConfig return exactly that predicate evaluated on the subset structure of the sorted copy of their argument. (3) Pick-up: each PickUpMin/Max function evaluates the predicate - always on that same subset structure - on 1,2,... (resp. max,max-1,...) and returns the first quantity for which it held, hence the smallest/largest in [1,max], or 0 after all max evaluations were false. Bounded stand-ins (labelled bounded, not proved; they relate two calls of an arbitrary divider, which no per-call contract expresses): monotonicity in the percentage limit and 'non-fatal => accepted by priority.New' are checked on the real code for 12 priority sets of 1..6 values, Fair/Rate, q and max 0..40 and ten limits (DESIGN.md 12.8).",
   design_ref="DESIGN.md §7 C18, §12.6",
   note=TB + "assumed: SortPriorities (sort.SliceStable) contract, sign of the float capacity hint calcCombinationsQuantity, isDistributionSuitable (no contract), dividers do not write their priorities argument, two induction facts about pow2m1 (monotone, non-negative) stated as axioms; the step from the positional structure to 'every non-empty subset' is an induction argued in DESIGN.md, not machine checked; results are relative to the divider's answers during the call (no determinism assumption).",
   technique=GH2),
})

NA = {
 "C19": "termination of goroutines over all schedules is a liveness property; the VC generator proves partial correctness of sequential code only (DESIGN.md §9)",
}
NOT_YET = "not claimed yet: contracts for this property are not built/discharged at this commit (see DESIGN.md §7 for the plan)"

def main():
    props = [json.loads(l)["id"] for l in open(os.path.join(ROOT, "properties.jsonl"))]
    hooks = subprocess.run(["git", "-C", "/repo", "log", "--format=%H %s"], capture_output=True, text=True).stdout.splitlines()
    hook_commits = [l.split()[0] for l in hooks if l.split(" ", 1)[1].startswith("hooks:")]
    checks = []
    for p in props:
        if p not in CLAIMED:
            continue
        c = CLAIMED[p]
        checks.append({
            "property_id": p,
            "quick_cmd": f"./check.sh {p} quick",
            "thorough_cmd": f"./check.sh {p} thorough",
            "evidence_file": f"/verif/evidence/{p}.json",
            "replay_cmd_template": "./check.sh replay {path}",
            "engine": "govc",
            "level_claimed": {"category": c["category"], "text": c["text"], "design_ref": c["design_ref"]},
            "level_note": c["note"],
            "technique": c["technique"],
        })
    na = []
    for p in props:
        if p in CLAIMED:
            continue
        na.append({"property_id": p, "reason": NA.get(p, NOT_YET)})
    m = {
        "version": 1,
        "setup_cmd": "./setup.sh",
        "hooks": {
            "guard": "verif",
            "enable": "go build tag 'verif' (-tags verif); the hook files are comment-only verif_contracts.go files read by govc",
            "baseline_off_cmd": BASE["cmd"],
            "source_commits": hook_commits,
            "add_only": True,
        },
        "engines": [{"name": "govc", "path": "/verif/govc", "serves_properties": sorted(CLAIMED),
                     "kind_free_text": "contract-based deductive verifier for a subset of Go written for this task: contracts as //@ comments in /repo/**/verif_contracts.go, symbolic execution of the typed AST with calls by contract and loops cut by invariants, SMT-LIB obligations discharged by z3 4.8.12, z3 5.1.0 and cvc5 1.0"}],
        "checks": checks,
        "not_applicable": na,
        "notes": "See DESIGN.md. Exit codes of every check: 0 held, 1 VIOLATION, 2 UNDECIDED (never on the unchanged tree).",
    }
    json.dump(m, open(os.path.join(ROOT, "MANIFEST.json"), "w"), indent=1)
    print("claimed:", sorted(CLAIMED), "n/a:", len(na))

if __name__ == "__main__":
    main()
