#!/usr/bin/env python3
"""Writes /verif/MANIFEST.json from the table below (kept here so that the manifest stays
valid and consistent while properties are added)."""
import json, os, subprocess

ROOT = os.path.dirname(os.path.dirname(os.path.abspath(__file__)))
BASE = json.load(open('/root/.vp/BASELINE.json'))

TB = ("Trusted: govc (own Go-to-SMT VC generator over the typed AST of /repo) and the solvers z3 4.8.12 / z3 5.1.0 / cvc5 1.0; "
      "assumed contracts of external functions in specs/externals.spec; ")

CLAIMED = {
 "C04": dict(
   category="proof",
   text="The scheduling goroutine of the limit discipline (main/loop/transfer/pass/send/delay) is verified as a sequential program whose channel receives, clock readings and sleeps are adversarial events. The send-event hook requires the property's own formula: sent+1 <= Quantity*((clock-t0) div Interval + 1), proved from the loop invariants 'at most Quantity*k elements left before batch k' and 'batch k starts no earlier than t0+k*Interval' (from Since, Interval-duration, Sleep(d) lasts >= d). Holds for every arrival pattern and consumer speed because received values and blocking are unconstrained. The window form (W -> floor(W/Interval)+2) follows arithmetically from the same two invariants and is argued in DESIGN.md, not a separate obligation.",
   design_ref="DESIGN.md §7 C04",
   note=TB + "relative to the clock axioms: time.Now/Since monotonic, time.Sleep(d) lasts at least d, clock differences fit int64; 'left the output' = the discipline's send completed; ghost initial state and allocatable capacity are preconditions of New.",
   technique="contract-based deductive verification with ghost event hooks on channel/clock operations; loop invariants; z3/cvc5"),
 "C12": dict(
   category="proof",
   text="Ghost sequence gIn records every received element; the send hook requires v == gIn[gOutN] (no loss, duplication, reordering), the close hook requires 'input observed closed and gOutN == gInN', the Sleep hook requires 'a full batch of Quantity elements preceded it' and 'd <= Interval' (no pause below Quantity, no extra throttling). All for arbitrary element counts, rates, capacities and arrival patterns. Not decided: the wall-clock bound 'within about ceil(N/Quantity) Intervals' additionally needs Sleep not to oversleep (runtime).",
   design_ref="DESIGN.md §7 C12",
   note=TB + "Go channel FIFO/exactly-once semantics turn 'sequence received by the goroutine' into 'sequence written by producers'; time.Sleep accuracy is a runtime fact.",
   technique="contract-based deductive verification with ghost event hooks; loop invariants; z3/cvc5"),
 "C13": dict(
   category="proof",
   text="Contracts on Rate.IsValid/Recalculate/recalculateQuantity/Flatten/Optimize; the post-condition of Recalculate is the property statement (error => zero Rate and a permitted cause; success => valid, >= minimum, minimal, speed within rounding in product form). Loop-free code, full int64/uint64 domain, nonlinear integer arithmetic in the solvers: a complete proof, every path an obligation. Failing models are replayed on the real function via go test -overlay.",
   design_ref="DESIGN.md §7 C13, §8.1",
   note=TB + "math/big operations are the mathematical ones (assumed contract). Integers are mathematical in SMT with a proved no-overflow obligation at each conversion/operation.",
   technique="contract-based deductive verification: weakest-precondition style VCs from the typed Go AST, discharged by z3/cvc5"),
}

NA = {
 "C19": "termination of goroutines over all schedules is a liveness property; the VC generator proves partial correctness of sequential code only (DESIGN.md §9)",
}
NOT_YET = "not claimed yet: contracts for this property are not built/discharged at this commit (see DESIGN.md §7 for the plan)"

def main():
    props = [json.loads(l)["id"] for l in open(os.path.join(ROOT, "properties.jsonl"))]
    hooks = subprocess.run(["git", "-C", "/repo", "log", "--format=%H %s"], capture_output=True, text=True).stdout.splitlines()
    hook_commits = [l.split()[0] for l in hooks if l.split(" ", 1)[1].startswith("hooks:")]
    checks = []
    for p in props:
        if p not in CLAIMED:
            continue
        c = CLAIMED[p]
        checks.append({
            "property_id": p,
            "quick_cmd": f"./check.sh {p} quick",
            "thorough_cmd": f"./check.sh {p} thorough",
            "evidence_file": f"/verif/evidence/{p}.json",
            "replay_cmd_template": "./check.sh replay {path}",
            "engine": "govc",
            "level_claimed": {"category": c["category"], "text": c["text"], "design_ref": c["design_ref"]},
            "level_note": c["note"],
            "technique": c["technique"],
        })
    na = []
    for p in props:
        if p in CLAIMED:
            continue
        na.append({"property_id": p, "reason": NA.get(p, NOT_YET)})
    m = {
        "version": 1,
        "setup_cmd": "./setup.sh",
        "hooks": {
            "guard": "verif",
            "enable": "go build tag 'verif' (-tags verif); the hook files are comment-only verif_contracts.go files read by govc",
            "baseline_off_cmd": BASE["cmd"],
            "source_commits": hook_commits,
            "add_only": True,
        },
        "engines": [{"name": "govc", "path": "/verif/govc", "serves_properties": sorted(CLAIMED),
                     "kind_free_text": "contract-based deductive verifier for a subset of Go written for this task: contracts as //@ comments in /repo/**/verif_contracts.go, symbolic execution of the typed AST with calls by contract and loops cut by invariants, SMT-LIB obligations discharged by z3 4.8.12, z3 5.1.0 and cvc5 1.0"}],
        "checks": checks,
        "not_applicable": na,
        "notes": "See DESIGN.md. Exit codes of every check: 0 held, 1 VIOLATION, 2 UNDECIDED (never on the unchanged tree).",
    }
    json.dump(m, open(os.path.join(ROOT, "MANIFEST.json"), "w"), indent=1)
    print("claimed:", sorted(CLAIMED), "n/a:", len(na))

if __name__ == "__main__":
    main()
