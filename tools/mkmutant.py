#!/usr/bin/env python3
"""mkmutant.py <dir under selftest> <name> <file relative to /repo> <old> <new> [--expect text] [--props 'C01 C02']
Writes a unified diff (patch -p1 format) without touching /repo."""
import sys, os, difflib
args = sys.argv[1:]
expect = None; props = None
if "--expect" in args:
    i = args.index("--expect"); expect = args[i+1]; del args[i:i+2]
if "--props" in args:
    i = args.index("--props"); props = args[i+1]; del args[i:i+2]
d, name, rel, old, new = args
src = open(os.path.join("/repo", rel)).read()
assert src.count(old) >= 1, "pattern not found"
mod = src.replace(old, new, 1)
diff = "".join(difflib.unified_diff(src.splitlines(True), mod.splitlines(True), "a/" + rel, "b/" + rel))
out = os.path.join("/verif/selftest", d)
os.makedirs(out, exist_ok=True)
with open(os.path.join(out, name + ".patch"), "w") as f:
    if expect: f.write("# expect: %s\n" % expect)
    if props: f.write("# props: %s\n" % props)
    f.write(diff)
print("wrote", os.path.join(out, name + ".patch"))
