#!/bin/sh
# Regenerates the baseline obligation lists and the evidence of all claimed properties on the
# unchanged tree (run after contracts or the engine change, then commit specs/baseline and evidence).
cd "$(dirname "$0")/.."
rc=0
for p in $(python3 -c "import json; print(' '.join(c['property_id'] for c in json.load(open('MANIFEST.json'))['checks']))") "$@"; do
  ./bin/govc check -prop $p -write-baseline | tail -1 || rc=1
done
exit $rc
