package main

// Violation reports: the failed obligation, the solver's output and, where a template
// exists for the function, a replay of the model on the real code through go test -overlay.

import (
	"bytes"
	"sync"
	"regexp"
	"fmt"
	"sort"
	"context"
	"encoding/json"
	"os"
	"os/exec"
	"path/filepath"
	"strings"
	"text/template"
	"time"
)

type replayResult struct {
	path       string
	reproduced bool
	output     string // output of the go test run of the replay
}

// namesProperty: the failing run's message names the property (templates prefix each oracle
// message with the property whose statement failed: "C03: ...", "C06/C07: ...").
func namesProperty(out, prop string) bool {
	return strings.Contains(out, prop+":") || strings.Contains(out, prop+"/") || strings.Contains(out, "/"+prop) || strings.Contains(out, prop+" (")
}

type ReplayFile struct {
	Property   string                   `json:"property"`
	Obligation string                   `json:"obligation"`
	Status     string                   `json:"status"`
	Function   string                   `json:"function"`
	Queries    []map[string]interface{} `json:"failing_queries"`
	Replay     map[string]interface{}   `json:"replay_on_real_code,omitempty"`
	Note       string                   `json:"note"`
}

func writeReplay(o *Options, ob *Obligation) replayResult {
	dir := filepath.Join(o.verif, "replays")
	_ = os.MkdirAll(dir, 0o755)
	rf := &ReplayFile{Property: o.prop, Obligation: ob.Name, Status: ob.Status, Function: ob.Func}
	var model string
	for _, j := range ob.Queries {
		if j.res.Status == "unsat" {
			continue
		}
		if j.res.Status == "sat" && model == "" {
			model = j.res.Output
		}
		rf.Queries = append(rf.Queries, map[string]interface{}{
			"path": j.q.Trail, "goal": clip(j.q.Goal, 2000), "answer": j.res.Status, "solver": j.res.Solver, "tried": j.res.Tried,
			"solver_output": clip(j.res.Output, 6000),
		})
	}
	res := replayResult{path: filepath.Join(dir, o.prop+"-"+sane(ob.Name)+".json")}
	if rp := replayOnRealCode(o, ob, model); rp != nil {
		rf.Replay = rp
		if v, _ := rp["reproduced"].(bool); v {
			res.reproduced = true
		}
		res.output, _ = rp["go_test_output"].(string)
	}
	searched := false
	if rf.Replay != nil {
		if h, _ := rf.Replay["how"].(string); strings.HasPrefix(h, "small-scope") {
			searched = true
		}
	}
	if res.reproduced && (model == "" || searched) {
		rf.Note = "no solver model describes a run of the real code here (unknown / timeout, or the failed obligation is about an intermediate state); a small-scope search over inputs / runs of the real code found one on which the property-level oracle fails (see replay_on_real_code)"
	} else if res.reproduced {
		rf.Note = "the solver's counterexample was replayed against the real code and the property-level oracle failed"
	} else {
		rf.Note = "failed obligation; no failing input was reproduced on the real code (no model, no replay template, or the model is not a reachable state)"
	}
	b, _ := json.MarshalIndent(rf, "", " ")
	_ = os.WriteFile(res.path, append(b, '\n'), 0o644)
	return res
}

// ------------------------------------------------------------------ model -> real code

type sexp struct {
	atom string
	list []*sexp
}

func parseSexps(s string) []*sexp {
	var out []*sexp
	var stack []*sexp
	i := 0
	for i < len(s) {
		c := s[i]
		switch {
		case c == '(':
			n := &sexp{list: []*sexp{}}
			stack = append(stack, n)
			i++
		case c == ')':
			if len(stack) == 0 {
				return out
			}
			n := stack[len(stack)-1]
			stack = stack[:len(stack)-1]
			if len(stack) == 0 {
				out = append(out, n)
			} else {
				p := stack[len(stack)-1]
				p.list = append(p.list, n)
			}
			i++
		case c == ' ' || c == '\n' || c == '\t' || c == '\r':
			i++
		case c == ';':
			for i < len(s) && s[i] != '\n' {
				i++
			}
		default:
			j := i
			if c == '|' {
				j++
				for j < len(s) && s[j] != '|' {
					j++
				}
				j++
			} else {
				for j < len(s) && !strings.ContainsRune("() \n\t\r", rune(s[j])) {
					j++
				}
			}
			a := &sexp{atom: s[i:j]}
			if len(stack) == 0 {
				out = append(out, a)
			} else {
				p := stack[len(stack)-1]
				p.list = append(p.list, a)
			}
			i = j
		}
	}
	return out
}

// modelValues extracts the nullary define-funs of a solver model.
func modelValues(out string) map[string]*sexp {
	vals := map[string]*sexp{}
	i := strings.Index(out, "(")
	if i < 0 {
		return vals
	}
	var walk func(n *sexp)
	walk = func(n *sexp) {
		if n.list == nil {
			return
		}
		if len(n.list) == 5 && n.list[0].atom == "define-fun" && n.list[2].list != nil && len(n.list[2].list) == 0 {
			vals[n.list[1].atom] = n.list[4]
			return
		}
		for _, c := range n.list {
			walk(c)
		}
	}
	for _, n := range parseSexps(out[i:]) {
		walk(n)
	}
	return vals
}

// goValue converts a model value to template data: integers as decimal strings,
// Booleans, and datatype values as maps from field name to value.
func goValue(w *World, v *sexp) interface{} {
	if v.list == nil {
		return v.atom
	}
	if len(v.list) == 2 && v.list[0].atom == "-" && v.list[1].list == nil {
		return "-" + v.list[1].atom
	}
	if len(v.list) > 0 && strings.HasPrefix(v.list[0].atom, "mk_") {
		name := v.list[0].atom[3:]
		if name == "Slice" {
			return map[string]interface{}{"arr": goValue(w, v.list[1]), "off": goValue(w, v.list[2]), "len": goValue(w, v.list[3]), "cap": goValue(w, v.list[4])}
		}
		if d := w.dts[name]; d != nil && len(d.Fields) == len(v.list)-1 {
			m := map[string]interface{}{}
			for i, f := range d.Fields {
				m[f.Name] = goValue(w, v.list[i+1])
			}
			return m
		}
	}
	return nil
}

var theWorld *World

type replayMemoEntry struct {
	out    string
	failed bool
}

var replayMemo = map[string]replayMemoEntry{}
var replayMemoMu sync.Mutex

// observedArgs turns the values of the observation terms (get-value output after the marker
// OBSERVED) into Go literals for the integer-slice and integer-map parameters:
// data["<param>_go"] = "[]uint{3, 2, 1}" / "map[uint]uint{3: 1}" / "nil".
func observedArgs(q *Query, model string) map[string]interface{} {
	out := map[string]interface{}{}
	i := strings.Index(model, "OBSERVED")
	if i < 0 {
		return out
	}
	rest := model[i+len("OBSERVED"):]
	j := strings.Index(rest, "(")
	if j < 0 {
		return out
	}
	ss := parseSexps(rest[j:])
	if len(ss) == 0 || ss[0].list == nil {
		return out
	}
	val := map[string]string{} // term text -> value
	for _, pr := range ss[0].list {
		if pr.list == nil || len(pr.list) != 2 {
			continue
		}
		v := pr.list[1]
		s := v.atom
		if v.list != nil && len(v.list) == 2 && v.list[0].atom == "-" {
			s = "-" + v.list[1].atom
		}
		val[sexpText(pr.list[0])] = s
	}
	get := func(name string) (string, bool) {
		for _, o := range q.Observe {
			if o.Name == name {
				v, ok := val[sexpText(parseSexps(o.Term)[0])]
				return v, ok
			}
		}
		return "", false
	}
	elems := map[string][]string{}
	for _, o := range q.Observe {
		if !strings.HasSuffix(o.Name, "#len") {
			continue
		}
		p := strings.TrimSuffix(o.Name, "#len")
		ln, ok := get(o.Name)
		if !ok {
			continue
		}
		n := 0
		fmt.Sscan(ln, &n)
		if n < 0 || n > obsMax {
			out[p+"_go"] = "nil /* length " + ln + " not representable in the replay */"
			out[p+"_toolong"] = true
			continue
		}
		var es []string
		for k := 0; k < n; k++ {
			v, ok := get(fmt.Sprintf("%s#%d", p, k))
			if !ok {
				v = fmt.Sprint(k + 1) // unconstrained in the query: any value fits
			}
			es = append(es, v)
		}
		elems[p] = es
		if isnil, _ := get(p + "#nil"); isnil == "true" && n == 0 {
			out[p+"_go"] = "nil"
		} else {
			out[p+"_go"] = "{" + strings.Join(es, ", ") + "}"
		}
	}
	for _, o := range q.Observe {
		if !strings.HasSuffix(o.Name, "#nil") || strings.Contains(o.Name, "@") {
			continue
		}
		m := strings.TrimSuffix(o.Name, "#nil")
		if _, isSlice := elems[m]; isSlice {
			continue
		}
		if _, has := out[m+"_go"]; has {
			continue
		}
		isMap := false
		for _, o2 := range q.Observe {
			if strings.HasPrefix(o2.Name, m+"@") {
				isMap = true
			}
		}
		if !isMap {
			continue
		}
		if isnil, _ := get(o.Name); isnil == "true" {
			out[m+"_go"] = "nil"
			continue
		}
		var ents []string
		seen := map[string]bool{}
		for sn, es := range elems {
			for k, key := range es {
				d, _ := get(fmt.Sprintf("%s@%s#%d#dom", m, sn, k))
				v, ok := get(fmt.Sprintf("%s@%s#%d#val", m, sn, k))
				if d == "true" && ok && !seen[key] {
					seen[key] = true
					ents = append(ents, key+": "+v)
				}
			}
		}
		sort.Strings(ents)
		out[m+"_go"] = "{" + strings.Join(ents, ", ") + "}"
	}
	return out
}

func sexpText(n *sexp) string {
	if n.list == nil {
		return n.atom
	}
	var p []string
	for _, c := range n.list {
		p = append(p, sexpText(c))
	}
	return "(" + strings.Join(p, " ") + ")"
}

// replayOnRealCode instantiates the replay template of the obligation's function with the
// model's parameter values and runs it as an in-package test through go test -overlay.
func replayOnRealCode(o *Options, ob *Obligation, model string) map[string]interface{} {
	tmplPath := filepath.Join(o.verif, "replay", "templates", sane(ob.Func)+".go.tmpl")
	tb, err := os.ReadFile(tmplPath)
	if err != nil {
		// package-level search templates (replay/templates/MAP.txt)
		mb, _ := os.ReadFile(filepath.Join(o.verif, "replay", "templates", "MAP.txt"))
		for _, l := range strings.Split(string(mb), "\n") {
			f := strings.Split(l, "\t")
			if len(f) != 2 || strings.HasPrefix(l, "#") {
				continue
			}
			if re, e := regexp.Compile(f[0]); e == nil && re.MatchString(ob.Func) {
				tb, err = os.ReadFile(filepath.Join(o.verif, "replay", "templates", strings.TrimSpace(f[1])))
				model = "" // these templates search, they do not take a model
				break
			}
		}
		if err != nil || tb == nil {
			return nil
		}
	}
	var q *Query
	for _, j := range ob.Queries {
		if j.res.Status == "sat" {
			q = j.q
			break
		}
	}
	search := q == nil || model == ""
	if model == "" {
		q = nil
	}
	if search {
		// no model: only templates that can search for a failing input themselves are of use
		if !strings.Contains(string(tb), "small-scope search") || len(ob.Queries) == 0 {
			return nil
		}
		q = &Query{}
	}
	vals := modelValues(model)
	data := map[string]interface{}{}
	inputs := map[string]interface{}{}
	for name, c := range q.Params {
		v, ok := vals[c]
		if !ok {
			continue
		}
		gv := goValue(theWorld, v)
		if gv == nil {
			// references (maps, functions, channels): the template supplies a witness of its own
			continue
		}
		data[name] = gv
		inputs[name] = gv
	}
	for k, v := range observedArgs(q, model) {
		data[k] = v
		inputs[k] = v
	}
	data["Property"] = o.prop
	data["Obligation"] = ob.Name
	t, err := template.New("replay").Parse(string(tb))
	if err != nil {
		return map[string]interface{}{"reproduced": false, "reason": "template: " + err.Error()}
	}
	var buf bytes.Buffer
	if err := t.Execute(&buf, data); err != nil {
		return map[string]interface{}{"reproduced": false, "reason": "template: " + err.Error()}
	}
	// package directory of the function
	pkgPath := ob.Func[:strings.Index(ob.Func, ".")]
	modDir := o.repo
	rel := pkgPath
	if strings.HasPrefix(pkgPath, "v2/") || pkgPath == "v2" {
		modDir = filepath.Join(o.repo, "v2")
		rel = strings.TrimPrefix(strings.TrimPrefix(pkgPath, "v2"), "/")
	}
	store := filepath.Join(o.verif, "replays", o.prop+"-"+sane(ob.Name)+"_test.go.txt")
	_ = os.WriteFile(store, buf.Bytes(), 0o644)
	// the same rendered test is run once per check run (several obligations of one package
	// share a search template)
	memoKey := modDir + "|" + rel + "|" + buf.String()
	replayMemoMu.Lock()
	m, hit := replayMemo[memoKey]
	replayMemoMu.Unlock()
	var out string
	var failed bool
	if hit {
		out, failed = m.out, m.failed
	} else {
		out, failed = runOverlayTest(modDir, rel, buf.Bytes())
		replayMemoMu.Lock()
		replayMemo[memoKey] = replayMemoEntry{out, failed}
		replayMemoMu.Unlock()
	}
	how := "the model's arguments, go test -overlay (in-package test injected without writing to /repo), -run TestVerifReplay"
	if search {
		how = "small-scope search for a failing input (the solver gave no model), go test -overlay, -run TestVerifReplay"
	}
	return map[string]interface{}{"reproduced": failed, "inputs": inputs, "test_source": store, "go_test_output": clip(out, 4000), "how": how}
}

func runOverlayTest(modDir, rel string, src []byte) (string, bool) {
	tmp, err := os.MkdirTemp("", "govc-replay-")
	if err != nil {
		return err.Error(), false
	}
	defer os.RemoveAll(tmp)
	testFile := filepath.Join(tmp, "zz_verif_replay_test.go")
	_ = os.WriteFile(testFile, src, 0o644)
	target := filepath.Join(modDir, rel, "zz_verif_replay_test.go")
	ov, _ := json.Marshal(map[string]interface{}{"Replace": map[string]string{target: testFile}})
	ovFile := filepath.Join(tmp, "overlay.json")
	_ = os.WriteFile(ovFile, ov, 0o644)
	ctx, cancel := context.WithTimeout(context.Background(), 180*time.Second)
	defer cancel()
	pat := "./" + rel
	if rel == "" {
		pat = "."
	}
	cmd := exec.CommandContext(ctx, "go", "test", "-overlay", ovFile, "-vet=off", "-v", "-count=1", "-timeout", "120s", "-run", "^TestVerifReplay$", pat)
	cmd.Dir = modDir
	cmd.Env = append(os.Environ(), "GOFLAGS=-mod=mod", "GOPROXY=off", "GOSUMDB=off", "GOTOOLCHAIN=local")
	b, err := cmd.CombinedOutput()
	s := string(b)
	failed := err != nil && strings.Contains(s, "--- FAIL: TestVerifReplay")
	return s, failed
}
