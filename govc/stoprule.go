package main

// C16, rule SB (DESIGN.md Appendix B): every operation that can block, in the functions
// reachable from a v1 goroutine entry, is a select containing every stop role of that
// goroutine, a select with a default case, or is listed with the reason why it completes.

import (
	"fmt"
	"go/ast"
	"go/token"
	"go/types"
	"sort"
	"strings"
)

type sbBlock struct {
	entries []string
	roles   []string
	ok      map[string]string // "kind text" -> reason
}

func parseStopRule(s *StopSpec) *sbBlock {
	b := &sbBlock{entries: s.Entries, ok: map[string]string{}}
	for _, l := range s.Lines {
		f := strings.Fields(l)
		if len(f) == 0 {
			continue
		}
		switch f[0] {
		case "roles":
			b.roles = append(b.roles, f[1:]...)
		case "blocking-ok":
			rest := strings.TrimSpace(strings.TrimPrefix(l, "blocking-ok"))
			what, reason := rest, ""
			if i := strings.Index(rest, ":"); i >= 0 {
				what, reason = strings.TrimSpace(rest[:i]), strings.TrimSpace(rest[i+1:])
			}
			b.ok[what] = reason
		}
	}
	return b
}

// stopRuleSB returns the SB obligations of one package.
func stopRuleSB(sp *Specs, prog *Program, pkgPath string) ([]*Obligation, []string) {
	var obs []*Obligation
	var reasons []string
	for _, sr := range sp.StopRules {
		if sr.Pkg != pkgPath {
			continue
		}
		blk := parseStopRule(sr)
		// reachable functions through static calls
		reach := map[string]*FuncInfo{}
		var visit func(key string)
		visit = func(key string) {
			fi := prog.funcs[key]
			if fi == nil || reach[key] != nil || fi.decl.Body == nil {
				return
			}
			if spec := sp.Funcs[key]; spec != nil && spec.Blocking {
				return // accounted for at its call sites
			}
			reach[key] = fi
			ast.Inspect(fi.decl.Body, func(n ast.Node) bool {
				if _, isGo := n.(*ast.GoStmt); isGo {
					return false
				}
				if c, ok := n.(*ast.CallExpr); ok {
					var obj types.Object
					switch f := ast.Unparen(c.Fun).(type) {
					case *ast.Ident:
						obj = fi.pkg.TypesInfo.Uses[f]
					case *ast.SelectorExpr:
						obj = fi.pkg.TypesInfo.Uses[f.Sel]
					}
					if fn, ok := obj.(*types.Func); ok && fn.Pkg() != nil && fn.Pkg().Path() == pkgPath {
						visit(funcKeyOf(fn))
					}
				}
				return true
			})
		}
		for _, e := range blk.entries {
			visit(pkgPath + "." + e)
		}
		var keys []string
		for k := range reach {
			keys = append(keys, k)
		}
		sort.Strings(keys)
		for _, k := range keys {
			fi := reach[k]
			info := fi.pkg.TypesInfo
			inComm := map[ast.Node]bool{}
			ast.Inspect(fi.decl.Body, func(n ast.Node) bool {
				if cc, ok := n.(*ast.CommClause); ok && cc.Comm != nil {
					ast.Inspect(cc.Comm, func(m ast.Node) bool {
						if m != nil {
							inComm[m] = true
						}
						return true
					})
				}
				return true
			})
			nsel := 0
			add := func(name, what string, ok bool, why string) {
				ob := &Obligation{Name: fi.name() + "#stoprule:SB:" + name, Kind: "stoprule", Func: fi.name(), Tags: []string{"C16"}, Status: "discharged", Solver: map[string]int{}}
				if !ok {
					ob.Status = "failed-sat"
					q := &Query{Ob: ob.Name, Kind: "stoprule", Func: fi.name(), Tags: []string{"C16"}, Goal: what + " can block without observing the stop signals: " + why}
					ob.Queries = append(ob.Queries, &job{q: q, res: Result{Status: "sat", Solver: "stop-rule", Output: q.Goal}})
				}
				obs = append(obs, ob)
			}
			listed := func(what string) bool {
				if r, ok := blk.ok[what]; ok {
					reasons = append(reasons, fmt.Sprintf("%s: %s completes because %s", fi.name(), what, r))
					return true
				}
				return false
			}
			ast.Inspect(fi.decl.Body, func(n ast.Node) bool {
				switch s := n.(type) {
				case *ast.GoStmt:
					return false
				case *ast.SelectStmt:
					hasDefault := false
					found := map[string]bool{}
					for _, cl := range s.Body.List {
						cc := cl.(*ast.CommClause)
						if cc.Comm == nil {
							hasDefault = true
							continue
						}
						var ch ast.Expr
						switch c := cc.Comm.(type) {
						case *ast.ExprStmt:
							if u, ok := ast.Unparen(c.X).(*ast.UnaryExpr); ok && u.Op == token.ARROW {
								ch = u.X
							}
						case *ast.AssignStmt:
							if u, ok := ast.Unparen(c.Rhs[0]).(*ast.UnaryExpr); ok && u.Op == token.ARROW {
								ch = u.X
							}
						}
						if ch != nil {
							found[types.ExprString(ch)] = true
						}
					}
					var missing []string
					for _, r := range blk.roles {
						if !found[r] {
							missing = append(missing, r)
						}
					}
					name := fmt.Sprintf("select[%d]", nsel)
					nsel++
					add(name, "select", hasDefault || len(missing) == 0, "no default case and no case for "+strings.Join(missing, ", "))
				case *ast.SendStmt:
					if !inComm[n] {
						what := "send " + types.ExprString(s.Chan)
						add(what, what, listed(what), "a bare send; not listed with a reason")
					}
				case *ast.UnaryExpr:
					if s.Op == token.ARROW && !inComm[n] {
						what := "recv " + types.ExprString(s.X)
						add(what, what, listed(what), "a bare receive; not listed with a reason")
					}
				case *ast.RangeStmt:
					if chanElem(info.TypeOf(s.X)) != nil {
						what := "range " + types.ExprString(s.X)
						add(what, what, listed(what), "a range over a channel; not listed with a reason")
					}
				case *ast.CallExpr:
					var obj types.Object
					switch f := ast.Unparen(s.Fun).(type) {
					case *ast.Ident:
						obj = info.Uses[f]
					case *ast.SelectorExpr:
						obj = info.Uses[f.Sel]
					}
					if fn, ok := obj.(*types.Func); ok {
						key := funcKeyOf(fn)
						if spec := sp.Funcs[key]; spec != nil && spec.Blocking {
							what := "call " + shortKey(key)
							add(what, what, listed(what), "a blocking call; not listed with a reason")
						}
					}
				}
				return true
			})
		}
	}
	return obs, reasons
}
