package main

// Calls (by contract), builtins, and the ghost event hooks of channel operations
// (DESIGN.md §2.4, §3).

import (
	"fmt"
	"go/ast"
	"go/parser"
	"go/types"
	"sort"
	"strings"
)

func funcKeyOf(f *types.Func) string {
	f = f.Origin()
	sig := f.Type().(*types.Signature)
	pkg := ""
	if f.Pkg() != nil {
		pkg = f.Pkg().Path()
	}
	if r := sig.Recv(); r != nil {
		t := types.Unalias(r.Type())
		star := ""
		if p, ok := t.(*types.Pointer); ok {
			t = types.Unalias(p.Elem())
			star = "*"
		}
		name := "?"
		if n, ok := t.(*types.Named); ok {
			name = n.Obj().Name()
		}
		if star != "" {
			return pkg + ".(*" + name + ")." + f.Name()
		}
		return pkg + "." + name + "." + f.Name()
	}
	return pkg + "." + f.Name()
}

func (x *Exec) evalCall(st *State, e *ast.CallExpr) []Val {
	info := x.info()
	if r, ok := st.inlined[e]; ok {
		delete(st.inlined, e)
		return r
	}
	// conversion
	if tv, ok := info.Types[e.Fun]; ok && tv.IsType() {
		v := x.eval(st, e.Args[0])
		return []Val{x.convert(st, e, v, tv.Type)}
	}
	fun := ast.Unparen(e.Fun)
	if ix, ok := fun.(*ast.IndexExpr); ok { // explicit instantiation f[T](...)
		fun = ix.X
	}
	var obj types.Object
	switch f := fun.(type) {
	case *ast.Ident:
		obj = info.Uses[f]
	case *ast.SelectorExpr:
		obj = info.Uses[f.Sel]
	}
	if b, ok := obj.(*types.Builtin); ok {
		return x.evalBuiltin(st, e, b.Name())
	}
	if fn, ok := obj.(*types.Func); ok {
		key := funcKeyOf(fn)
		sig := fn.Type().(*types.Signature)
		var args []Val
		var names []string
		if sig.Recv() != nil {
			sel := fun.(*ast.SelectorExpr)
			if _, isIface := sig.Recv().Type().Underlying().(*types.Interface); isIface {
				// interface method call: contract keyed by interface type
				key = ifaceKey(info.TypeOf(sel.X), fn.Name())
			}
			args = append(args, x.eval(st, sel.X))
		}
		for i, a := range e.Args {
			var v Val
			if pre, ok := st.preArgs[e]; ok && i < len(pre) {
				v = pre[i] // a deferred call: the argument was evaluated at the defer statement
			} else {
				v = x.eval(st, a)
			}
			if isNilExpr(info, a) && i < sig.Params().Len() {
				v.G = sig.Params().At(i).Type()
				if want := x.w.sortOf(v.G); want != v.S {
					v = Val{T: x.w.zero(want), S: want, G: v.G}
				}
			}
			args = append(args, v)
		}
		spec := x.sp.Funcs[key]
		if spec == nil {
			x.unsupported(e, "call of "+key+" which has no contract")
			return x.freshResults(st, sig)
		}
		if fi := x.prog.funcs[key]; fi != nil {
			names = fi.paramNames()
		} else {
			names = spec.Params
		}
		if e.Ellipsis.IsValid() {
			x.unsupported(e, "variadic call")
		}
		if ev := x.findCallEvent(key); ev != nil {
			binds := map[string]Val{}
			for i, v := range ev.Vars {
				if i < len(args) {
					binds[v] = args[i]
				}
			}
			st.note("call " + shortKey(key))
			x.runEvent(st, e, ev, binds)
		}
		pollsStop := false
		for _, c := range spec.Clauses {
			if c.Kind == "ensures" && c.Label == "polls" {
				pollsStop = true
			}
		}
		var before Val
		if pollsStop {
			before = (&SEnv{x: x, st: st, pkg: x.fn.pkgPath()}).eval(&SX{Op: "id", Name: "gStop", Pos: "engine"})
		}
		res := x.applyContract(st, e, key, spec.Clauses, names, args, sig.Results(), info.TypeOf(e))
		if ev := x.findCallEvent(key); ev != nil {
			x.afterEffects(st, e, ev, args, res)
		}
		if pollsStop {
			after := (&SEnv{x: x, st: st, pkg: x.fn.pkgPath()}).eval(&SX{Op: "id", Name: "gStop", Pos: "engine"})
			st.polls = append(st.polls, poll{fmt.Sprintf("call[%d:%s]", x.ordinal(e), lastName(key)), and(after.T, not(before.T))})
		}
		return res
	}
	// call through a function value
	ft := info.TypeOf(e.Fun)
	if sig, ok := ft.Underlying().(*types.Signature); ok {
		p, k := "", ""
		if n, ok := types.Unalias(ft).(*types.Named); ok && n.Obj().Pkg() != nil {
			p, k = n.Obj().Pkg().Path(), n.Obj().Name()
		}
		fts := x.sp.FuncTypes[p+"."+k]
		if fts == nil {
			fts = x.sp.FuncTypes[x.fn.pkgPath()+"."+k]
		}
		if fts == nil {
			x.unsupported(e, "call through function value of type "+ft.String()+" without functype contract")
			return x.freshResults(st, sig)
		}
		fv := x.eval(st, e.Fun)
		x.safety(st, e, "nil-func", not(app("=", fv.T, "0")))
		var args []Val
		for i, a := range e.Args {
			v := x.eval(st, a)
			if isNilExpr(info, a) && i < sig.Params().Len() {
				v.G = sig.Params().At(i).Type()
				if want := x.w.sortOf(v.G); want != v.S {
					v = Val{T: x.w.zero(want), S: want, G: v.G}
				}
			}
			args = append(args, v)
		}
		fev := x.findCallEvent("functype " + k)
		if fev != nil {
			binds := map[string]Val{}
			for i, v := range fev.Vars {
				if i < len(args) {
					binds[v] = args[i]
				}
			}
			x.runEvent(st, e, fev, binds)
		}
		res := x.applyContract(st, e, "functype "+k, fts.Clauses, fts.Params, args, sig.Results(), info.TypeOf(e))
		if fev != nil {
			x.afterEffects(st, e, fev, args, res)
		}
		return res
	}
	x.unsupported(e, "call "+types.ExprString(e.Fun))
	return []Val{{T: "0", S: "Int"}}
}

func shortKey(key string) string {
	if i := strings.LastIndex(key, "/"); i >= 0 {
		return key[i+1:]
	}
	return key
}

func (x *Exec) findCallEvent(key string) *EventSpec {
	for _, ev := range x.sp.Events {
		if ev.Kind == "call" && ev.Pkg == x.fn.pkgPath() && ev.Pattern == shortKey(key) && (ev.In == "" || strings.HasSuffix(x.fn.key, "."+ev.In) || strings.HasSuffix(x.curInlineKey, "."+ev.In)) {
			return ev
		}
	}
	return nil
}

// afterEffects applies the effect-after clauses of a call event (ghost recording of a call
// together with its results), evaluated in the state after the call.
func (x *Exec) afterEffects(st *State, site ast.Node, ev *EventSpec, args []Val, res []Val) {
	binds := map[string]Val{}
	for i, v := range ev.Vars {
		if i < len(args) {
			binds[v] = args[i]
		}
	}
	for i, r := range res {
		binds[fmt.Sprintf("result%d", i)] = r
	}
	if len(res) == 1 {
		binds["result"] = res[0]
	}
	env := &SEnv{x: x, st: st, binds: binds, pkg: x.fn.pkgPath(), own: true, pos: site.Pos()}
	x.applyEffects(st, env, ev, "effect-after")
}

func ifaceKey(t types.Type, method string) string {
	if n, ok := types.Unalias(t).(*types.Named); ok && n.Obj().Pkg() != nil {
		return n.Obj().Pkg().Path() + "." + n.Obj().Name() + "." + method
	}
	return "?." + method
}

func (x *Exec) freshResults(st *State, sig *types.Signature) []Val {
	var out []Val
	for i := 0; i < sig.Results().Len(); i++ {
		out = append(out, x.freshVal(st, "res", sig.Results().At(i).Type()))
	}
	return out
}

func (x *Exec) callOrdinalName(e ast.Node, key string) string {
	short := key
	if i := strings.LastIndex(short, "/"); i >= 0 {
		short = short[i+1:]
	}
	return fmt.Sprintf("call[%d:%s]", x.ordinal(e), short)
}

// applyContract checks the preconditions of a callee, havocs its frame and assumes its
// postconditions. The callee's body is never looked at.
func (x *Exec) applyContract(st *State, site ast.Node, key string, clauses []*Clause, names []string, args []Val,
	results *types.Tuple, callType types.Type) []Val {
	binds := map[string]Val{}
	for i, a := range args {
		if i < len(names) && names[i] != "_" && names[i] != "" {
			binds[names[i]] = a
		}
	}
	// a parameter that was renamed since the contract was written: the contract still uses the
	// old name, recorded with its position (receiver first) when the baseline was taken
	for old, ord := range localHints[strings.TrimPrefix(key, modRoot+"/")] {
		if _, bound := binds[old]; !bound && ord < len(args) && ord < len(names) {
			binds[old] = args[ord]
		}
	}
	pkg := keyPkg(key)
	if strings.HasPrefix(key, "functype ") {
		pkg = x.fn.pkgPath()
	}
	site0 := x.callOrdinalName(site, key)
	env := &SEnv{x: x, st: st, binds: binds, pkg: pkg}
	n := 0
	for _, c := range clauses {
		if c.Kind != "requires" || !c.relevant(x.prop) || c.Label == "ghost-initial-state" {
			// the ghost state of an object that does not exist yet is empty by definition
			continue
		}
		n++
		parts, bad := x.tryClause(env, c)
		if bad != "" {
			lab := c.Label
			if lab == "" {
				lab = fmt.Sprint(n)
			}
			x.broken(st, "requires", site0+":requires:"+lab, c.Tags, bad)
			continue
		}
		for _, part := range parts {
			x.oblige(st, "requires", site0+":requires:"+part.label(n), part.tagsFor(c.Tags), part.term)
		}
	}
	pre := st.fork()
	// frame
	for _, c := range clauses {
		if c.Kind != "modifies" {
			continue
		}
		envp := &SEnv{x: x, st: pre, binds: binds, pkg: pkg}
		for _, t := range c.Exprs {
			x.havocTarget(st, envp, t)
		}
	}
	nr := x.freshConst("nextref", "Int")
	st.assume(app(">=", nr, st.nextref))
	st.nextref = nr
	x.bumpPolls(st)
	var res []Val
	if results != nil {
		for i := 0; i < results.Len(); i++ {
			t := results.At(i).Type()
			if tup, ok := callType.(*types.Tuple); ok && i < tup.Len() {
				t = tup.At(i).Type() // instantiated result type
			} else if results.Len() == 1 && callType != nil {
				if _, isTup := callType.(*types.Tuple); !isTup {
					t = callType
				}
			}
			res = append(res, x.freshVal(st, "r_"+lastName(key), t))
		}
	}
	post := &SEnv{x: x, st: st, old: pre, binds: map[string]Val{}, pkg: pkg}
	for k, v := range binds {
		post.binds[k] = v
	}
	for i, r := range res {
		post.binds[fmt.Sprintf("result%d", i)] = r
	}
	if len(res) == 1 {
		post.binds["result"] = res[0]
	}
	for _, c := range clauses {
		if (c.Kind != "ensures") || !c.relevant(x.prop) {
			continue
		}
		parts, bad := x.tryClause(post, c)
		if bad != "" {
			continue // a post-condition that cannot be evaluated is not assumed
		}
		for _, part := range parts {
			st.assume(part.term)
		}
	}
	return res
}

// sortOfName: anyelems(uint) / anyelems(T) name the element sort directly.
func sortOfName(e *SX) string {
	if e.Op != "id" {
		return ""
	}
	switch e.Name {
	case "uint", "int", "uint64", "int64":
		return "Int"
	case "T":
		return "T"
	}
	return ""
}

// bumpPolls: the poll counter gPolls (C16) never decreases; it is exempt from frame
// declarations and is havocked monotonically at calls and loop heads.
func (x *Exec) bumpPolls(st *State) {
	env := &SEnv{x: x, st: st, pkg: x.fn.pkgPath()}
	if env.ghostDecl("gPolls") == nil {
		return
	}
	old := env.eval(&SX{Op: "id", Name: "gPolls", Pos: "engine"})
	c := x.freshConst("g_gPolls", "Int")
	st.assume(app(">=", c, old.T))
	st.heap["g_gPolls"] = Val{T: c, S: "Int"}
}

func keyPkg(key string) string {
	// "path/to/pkg.(*T).M" or "path/to/pkg.F"
	k := strings.LastIndex(key, "/")
	d := strings.Index(key[k+1:], ".")
	if d < 0 {
		return key
	}
	return key[:k+1+d]
}

func lastName(key string) string {
	i := strings.LastIndex(key, ".")
	return sane(key[i+1:])
}

// havocTarget replaces the heap location(s) denoted by a modifies target with arbitrary
// values. Targets are evaluated in the pre-state.
func (x *Exec) havocTarget(st *State, pre *SEnv, t *SX) {
	havocAt := func(name string, ref string) {
		cur, ok := st.heap[name]
		if !ok {
			cur = x.comp(st, name, pre.st.heap[name].S)
		}
		n := x.freshConst("hv_"+name, arrayElem(cur.S))
		x.setComp(st, name, Val{T: app("store", cur.T, ref, n), S: cur.S})
		st.wrote(name, ref, "true")
	}
	switch {
	case t.Op == "id":
		g := pre.ghostDecl(t.Name)
		if g == nil {
			x.errs = append(x.errs, fmt.Sprintf("%s: modifies target %s is not a ghost variable", t.Pos, t.Name))
			return
		}
		n := x.freshConst("hv_g_"+t.Name, g.Sort)
		st.heap["g_"+t.Name] = Val{T: n, S: g.Sort}
	case t.Op == "sel":
		base := pre.eval(t.Args[0])
		nmd, s := ptrStruct(base.G)
		if nmd == nil {
			x.errs = append(x.errs, fmt.Sprintf("%s: modifies target %s: base is not a struct pointer", t.Pos, t))
			return
		}
		name := ""
		if s != nil {
			for i := 0; i < s.NumFields(); i++ {
				if f := s.Field(i); f.Name() == t.Name {
					name = fieldComp(nmd, t.Name)
					x.comp(pre.st, name, arrayOf(x.w.sortOf(f.Type())))
					x.comp(st, name, arrayOf(x.w.sortOf(f.Type())))
				}
			}
		}
		if name == "" {
			if g := x.ghostField(nmd, t.Name); g != nil {
				name = "g" + fieldComp(nmd, t.Name)
				x.comp(pre.st, name, arrayOf(g.Sort))
				x.comp(st, name, arrayOf(g.Sort))
			}
		}
		if name == "" {
			x.errs = append(x.errs, fmt.Sprintf("%s: modifies target %s: no such field", t.Pos, t))
			return
		}
		havocAt(name, base.T)
	case t.Op == "call" && t.Name == "content":
		m := pre.eval(t.Args[0])
		_, _, vs, _ := x.mapParts(pre.st, m)
		x.mapComps(st, vs)
		havocAt("mdom_"+sortTag(vs), m.T)
		havocAt("mval_"+sortTag(vs), m.T)
	case t.Op == "call" && t.Name == "elems":
		s := pre.eval(t.Args[0])
		es, _ := x.elemSort(s)
		x.arrComp(pre.st, es)
		x.arrComp(st, es)
		havocAt("arr_"+sortTag(es), app("sl_arr", s.T))
	case t.Op == "call" && t.Name == "anycontent":
		// any map with the value sort named by the argument may change
		vs := sortOfName(t.Args[0])
		if vs == "" {
			m := pre.eval(t.Args[0])
			_, _, vs, _ = x.mapParts(pre.st, m)
		}
		dom, val := x.mapComps(st, vs)
		st.heap["mdom_"+sortTag(vs)] = Val{T: x.freshConst("hv_mdom", dom.S), S: dom.S}
		st.heap["mval_"+sortTag(vs)] = Val{T: x.freshConst("hv_mval", val.S), S: val.S}
		st.wrote("mdom_"+sortTag(vs), "*", "true")
		st.wrote("mval_"+sortTag(vs), "*", "true")
	case t.Op == "call" && t.Name == "anyelems":
		// any backing array with the element sort of the argument may change
		es := sortOfName(t.Args[0])
		if es == "" {
			s := pre.eval(t.Args[0])
			es, _ = x.elemSort(s)
		}
		cur := x.arrComp(st, es)
		name := "arr_" + sortTag(es)
		st.heap[name] = Val{T: x.freshConst("hv_"+name, cur.S), S: cur.S}
		st.wrote(name, "*", "true")
	default:
		x.errs = append(x.errs, fmt.Sprintf("%s: unsupported modifies target %s", t.Pos, t))
	}
}

// ------------------------------------------------------------------ builtins

func (x *Exec) evalBuiltin(st *State, e *ast.CallExpr, name string) []Val {
	t := x.info().TypeOf(e)
	one := func(v Val) []Val { return []Val{v} }
	switch name {
	case "len", "cap":
		a := x.eval(st, e.Args[0])
		switch types.Unalias(a.G).Underlying().(type) {
		case *types.Slice:
			return one(Val{T: app("sl_"+name, a.T), S: "Int", G: t})
		case *types.Map:
			d, _, _, _ := x.mapParts(st, a)
			x.declare("mcard", "FUN ((Array Int Bool)) Int")
			r := Val{T: app("mcard", d), S: "Int", G: t}
			st.assume(and(app("<=", "0", r.T), app("<", r.T, two63)))
			// a map is empty iff it has no key
			st.assume(fmt.Sprintf("(= (= %s 0) (forall ((k Int)) (! (not (select %s k)) :pattern ((select %s k)))))", r.T, d, d))
			return one(r)
		case *types.Chan:
			if name == "cap" {
				x.declare("chancap", "FUN (Int) Int")
				r := Val{T: app("chancap", a.T), S: "Int", G: t}
				st.assume(and(app("<=", "0", r.T), app("<", r.T, two63)))
				return one(r)
			}
			// len of a channel: what is buffered right now - any value up to the capacity
			x.declare("chancap", "FUN (Int) Int")
			n := x.freshConst("chanlen", "Int")
			st.assume(and(app("<=", "0", n), app("<=", n, app("chancap", a.T)), app("<", n, two63)))
			return one(Val{T: n, S: "Int", G: t})
		}
		x.unsupported(e, name+" of "+a.G.String())
		return one(Val{T: "0", S: "Int", G: t})
	case "make":
		switch u := types.Unalias(t).Underlying().(type) {
		case *types.Map:
			r := x.newRef(st)
			m := Val{T: r, S: "Int", G: t}
			vs := x.w.sortOf(u.Elem())
			dom, val := x.mapComps(st, vs)
			empty := "((as const (Array Int Bool)) false)"
			x.setComp(st, "mdom_"+sortTag(vs), Val{T: app("store", dom.T, r, empty), S: dom.S})
			if vs == "Int" {
				st.assume(app("=", app("msum", empty, app("select", val.T, r)), "0"))
			}
			for _, a := range e.Args[1:] {
				x.eval(st, a)
			}
			return one(m)
		case *types.Slice:
			l := x.eval(st, e.Args[1])
			c := l
			if len(e.Args) > 2 {
				c = x.eval(st, e.Args[2])
			}
			x.safety(st, e, "make-size", and(app("<=", "0", l.T), app("<=", l.T, c.T), app("<", c.T, two63)))
			r := x.newRef(st)
			es := x.w.sortOf(u.Elem())
			a := x.arrComp(st, es)
			x.setComp(st, "arr_"+sortTag(es), Val{T: app("store", a.T, r, x.w.zero(arrayOf(es))), S: a.S})
			return one(Val{T: app("mk_Slice", r, "0", l.T, c.T), S: "Slice", G: t})
		case *types.Chan:
			r := x.newRef(st)
			x.declare("chancap", "FUN (Int) Int")
			if len(e.Args) > 1 {
				c := x.eval(st, e.Args[1])
				x.safety(st, e, "make-size", and(app("<=", "0", c.T), app("<", c.T, two63)))
				st.assume(app("=", app("chancap", r), c.T))
			} else {
				st.assume(app("=", app("chancap", r), "0"))
			}
			return one(Val{T: r, S: "Int", G: t})
		}
	case "new":
		r := x.newRef(st)
		obj := Val{T: r, S: "Int", G: t}
		n, s := ptrStruct(t)
		if n != nil && s != nil {
			for i := 0; i < s.NumFields(); i++ {
				f := s.Field(i)
				if f.Exported() || f.Pkg() == x.fn.pkg.Types {
					x.writeField(st, obj, f.Name(), Val{T: x.w.zero(x.w.sortOf(f.Type())), S: x.w.sortOf(f.Type())})
				}
			}
			p, k := typeKey(n)
			var gks []string
			for gk := range x.sp.Ghosts {
				gks = append(gks, gk)
			}
			sort.Strings(gks)
			for _, gk := range gks {
				g := x.sp.Ghosts[gk]
				if g.Field && strings.HasPrefix(gk, "field:"+p+"."+k+".") {
					fname := gk[len("field:"+p+"."+k+"."):]
					x.writeField(st, obj, fname, Val{T: x.w.zero(g.Sort), S: g.Sort})
				}
			}
		}
		return one(obj)
	case "append":
		return one(x.evalAppend(st, e))
	case "copy":
		dst := x.eval(st, e.Args[0])
		src := x.eval(st, e.Args[1])
		es, _ := x.elemSort(dst)
		a := x.arrComp(st, es)
		n := x.freshConst("ncopy", "Int")
		ld, ls := app("sl_len", dst.T), app("sl_len", src.T)
		st.assume(app("=", n, app("ite", app("<", ld, ls), ld, ls)))
		ref := app("sl_arr", dst.T)
		st.cond = append(st.cond, app(">", n, "0"))
		x.heapWriteHook(st, e, ref)
		st.cond = st.cond[:len(st.cond)-1]
		na := x.freshConst("copied", arrayOf(es))
		od := app("sl_off", dst.T)
		oldInner := app("select", a.T, ref)
		srcInner := app("select", a.T, app("sl_arr", src.T))
		st.assume(fmt.Sprintf("(forall ((j Int)) (! (= (select %s j) (ite (and (<= %s j) (< j (+ %s %s))) (select %s (at %s (- j %s))) (select %s j))) :pattern ((select %s j))))",
			na, od, od, n, srcInner, app("sl_off", src.T), od, oldInner, na))
		x.setComp(st, "arr_"+sortTag(es), Val{T: app("store", a.T, ref, na), S: a.S})
		st.wrote("arr_"+sortTag(es), ref, app(">", n, "0"))
		return one(Val{T: n, S: "Int", G: t})
	case "delete":
		m := x.eval(st, e.Args[0])
		k := x.eval(st, e.Args[1])
		x.mapDelete(st, m, k.T)
		return nil
	case "close":
		x.closeEvent(st, e.Args[0], e)
		return nil
	case "min", "max":
		a := x.eval(st, e.Args[0])
		b := x.eval(st, e.Args[1])
		op := "<"
		if name == "max" {
			op = ">"
		}
		return one(Val{T: app("ite", app(op, a.T, b.T), a.T, b.T), S: "Int", G: t})
	}
	x.unsupported(e, "builtin "+name)
	return one(Val{T: "0", S: "Int", G: t})
}

func (x *Exec) evalAppend(st *State, e *ast.CallExpr) Val {
	t := x.info().TypeOf(e)
	s := x.eval(st, e.Args[0])
	es, _ := x.elemSort(s)
	a := x.arrComp(st, es)
	ln, cp, off, ref := app("sl_len", s.T), app("sl_cap", s.T), app("sl_off", s.T), app("sl_arr", s.T)
	inner := app("select", a.T, ref)
	if len(e.Args) != 2 {
		x.unsupported(e, "append with other than one element / one spread slice")
		return s
	}
	var inplace, newInner, newArr, newLen, elemT string
	if e.Ellipsis.IsValid() {
		tt := x.eval(st, e.Args[1])
		tl := app("sl_len", tt.T)
		src := app("select", a.T, app("sl_arr", tt.T))
		newLen = app("+", ln, tl)
		inplace = app("<=", newLen, cp)
		ni := x.freshConst("app_in", arrayOf(es))
		lo := app("+", off, ln)
		st.assume(fmt.Sprintf("(forall ((j Int)) (! (= (select %s j) (ite (and (<= %s j) (< j (+ %s %s))) (select %s (at %s (- j %s))) (select %s j))) :pattern ((select %s j))))",
			ni, lo, lo, tl, src, app("sl_off", tt.T), lo, inner, ni))
		newInner = ni
		na := x.freshConst("app_re", arrayOf(es))
		st.assume(fmt.Sprintf("(forall ((j Int)) (! (=> (and (<= 0 j) (< j %s)) (= (select %s j) (ite (< j %s) (select %s (at %s j)) (select %s (at %s (- j %s)))))) :pattern ((select %s j))))",
			newLen, na, ln, inner, off, src, app("sl_off", tt.T), ln, na))
		newArr = na
	} else {
		v := x.eval(st, e.Args[1])
		elemT = v.T
		newLen = app("+", ln, "1")
		inplace = app("<", ln, cp)
		newInner = app("store", inner, app("at", off, ln), v.T)
		na := x.freshConst("app_re", arrayOf(es))
		st.assume(fmt.Sprintf("(forall ((j Int)) (! (=> (and (<= 0 j) (< j %s)) (= (select %s j) (select %s (at %s j)))) :pattern ((select %s j))))",
			ln, na, inner, off, na))
		st.assume(app("=", app("select", na, ln), v.T))
		newArr = na
	}
	x.safety(st, e, "append-len", app("<", newLen, two63))
	st.cond = append(st.cond, inplace)
	if e.Ellipsis.IsValid() {
		st.cond = append(st.cond, app(">", app("-", newLen, ln), "0"))
	}
	x.heapWriteHook(st, e, ref)
	if e.Ellipsis.IsValid() {
		st.cond = st.cond[:len(st.cond)-1]
	}
	st.cond = st.cond[:len(st.cond)-1]
	r := x.newRef(st)
	nc := x.freshConst("newcap", "Int")
	st.assume(and(app(">=", nc, newLen), app("<", nc, two63), app(">", nc, "0")))
	x.setComp(st, "arr_"+sortTag(es), Val{T: app("ite", inplace, app("store", a.T, ref, newInner), app("store", a.T, r, newArr)), S: a.S})
	st.wrote("arr_"+sortTag(es), ref, and(inplace, app(">", newLen, ln)))
	res := app("ite", inplace, app("mk_Slice", ref, off, newLen, cp), app("mk_Slice", r, "0", newLen, nc))
	c := x.freshConst("appended", "Slice")
	st.assume(app("=", c, res))
	if es == "Int" && !e.Ellipsis.IsValid() {
		// the set of elements grows by the appended one (both for the in-place and the reallocated case)
		x.declare("pset", "FUN ((Array Int Int) Int Int) (Array Int Bool)")
		na2 := x.arrComp(st, "Int")
		st.assume(app("=", app("pset", app("select", na2.T, app("sl_arr", c)), app("sl_off", c), newLen),
			app("store", app("pset", inner, off, ln), elemT, "true")))
	}
	return Val{T: c, S: "Slice", G: t}
}

// ------------------------------------------------------------------ events

func matchPattern(pat ast.Expr, e ast.Expr, binds map[string]ast.Expr) bool {
	pat, e = ast.Unparen(pat), ast.Unparen(e)
	if id, ok := pat.(*ast.Ident); ok && strings.HasPrefix(id.Name, "W_") {
		binds[id.Name[2:]] = e
		return true
	}
	switch p := pat.(type) {
	case *ast.Ident:
		q, ok := e.(*ast.Ident)
		return ok && p.Name == q.Name
	case *ast.SelectorExpr:
		q, ok := e.(*ast.SelectorExpr)
		return ok && p.Sel.Name == q.Sel.Name && matchPattern(p.X, q.X, binds)
	case *ast.IndexExpr:
		q, ok := e.(*ast.IndexExpr)
		return ok && matchPattern(p.X, q.X, binds) && matchPattern(p.Index, q.Index, binds)
	case *ast.CallExpr:
		q, ok := e.(*ast.CallExpr)
		if !ok || len(p.Args) != len(q.Args) || !matchPattern(p.Fun, q.Fun, binds) {
			return false
		}
		for i := range p.Args {
			if !matchPattern(p.Args[i], q.Args[i], binds) {
				return false
			}
		}
		return true
	}
	return false
}

func (x *Exec) findEvent(kind string, ch ast.Expr) (*EventSpec, map[string]ast.Expr) {
	for _, ev := range x.sp.Events {
		if ev.Kind != kind || ev.Pkg != x.fn.pkgPath() || (ev.In != "" && !strings.HasSuffix(x.fn.key, "."+ev.In) && !strings.HasSuffix(x.curInlineKey, "."+ev.In)) {
			continue
		}
		if ev.Pattern == "" || ev.Pattern == "*" {
			if ch == nil {
				return ev, nil
			}
			continue
		}
		if ch == nil {
			continue
		}
		pat, err := parser.ParseExpr(strings.ReplaceAll(ev.Pattern, "$", "W_"))
		if err != nil {
			x.errs = append(x.errs, ev.Where+": bad event pattern: "+err.Error())
			continue
		}
		b := map[string]ast.Expr{}
		if matchPattern(pat, ch, b) {
			return ev, b
		}
	}
	return nil, nil
}

// runEvent applies an event hook: obligations of its requires clauses, assumptions of
// its assume-env clauses, then its ghost effects (simultaneous assignment).
func (x *Exec) runEvent(st *State, site ast.Node, ev *EventSpec, binds map[string]Val) {
	if ev.Kind == "send" || ev.Kind == "recv" {
		// a channel operation may block: real time passes (gClock is the time of the last event)
		old := (&SEnv{x: x, st: st, pkg: x.fn.pkgPath()}).eval(&SX{Op: "id", Name: "gClock", Pos: ev.Where})
		c := x.freshConst("g_gClock", "Int")
		st.assume(app(">=", c, old.T))
		st.heap["g_gClock"] = Val{T: c, S: "Int"}
	}
	env := &SEnv{x: x, st: st, binds: binds, pkg: x.fn.pkgPath(), own: true, pos: site.Pos()}
	name := fmt.Sprintf("event[%d:%s %s]", x.ordinal(site), ev.Kind, ev.Pattern)
	n := 0
	for _, c := range ev.Clauses {
		if !c.relevant(x.prop) {
			continue
		}
		switch c.Kind {
		case "assume-env":
			for _, p := range env.evalClause(c) {
				st.assume(p.term)
			}
		case "requires":
			n++
			for _, p := range env.evalClause(c) {
				x.oblige(st, "event", name+":"+p.label(n), p.tagsFor(c.Tags), p.term)
			}
		}
	}
	x.applyEffects(st, env, ev, "effect")
}

// applyEffects performs the simultaneous ghost assignments of the given clause kind.
func (x *Exec) applyEffects(st *State, env *SEnv, ev *EventSpec, kind string) {
	type upd struct {
		name string
		v    Val
	}
	var ups []upd
	for _, c := range ev.Clauses {
		if c.Kind != kind || !c.relevant(x.prop) {
			continue
		}
		g := env.ghostDecl(c.Target)
		if g == nil {
			x.errs = append(x.errs, c.Where+": effect target "+c.Target+" is not a ghost variable")
			continue
		}
		v := env.eval(c.Expr)
		if v.S != g.Sort {
			x.errs = append(x.errs, fmt.Sprintf("%s: effect on %s has sort %s, want %s", c.Where, c.Target, v.S, g.Sort))
		}
		ups = append(ups, upd{c.Target, v})
	}
	for _, u := range ups {
		c := x.freshConst("g_"+u.name, u.v.S)
		st.assume(app("=", c, u.v.T))
		st.heap["g_"+u.name] = Val{T: c, S: u.v.S}
	}
}

func chanElem(t types.Type) types.Type {
	if c, ok := types.Unalias(t).Underlying().(*types.Chan); ok {
		return c.Elem()
	}
	return nil
}

func (x *Exec) bindWild(st *State, wild map[string]ast.Expr, binds map[string]Val) {
	var ks []string
	for k := range wild {
		ks = append(ks, k)
	}
	sort.Strings(ks)
	for _, k := range ks {
		binds[k] = x.eval(st, wild[k])
	}
}

// recvEvent models a receive from channel expression ch. The received value and the
// "open" flag are arbitrary (the environment is adversarial).
func (x *Exec) recvEvent(st *State, ch ast.Expr, site ast.Node) (Val, Val) {
	et := chanElem(x.info().TypeOf(ch))
	var v Val
	if et != nil {
		v = x.freshVal(st, "rcv", et)
	} else {
		v = Val{T: "0", S: "Int"}
	}
	ok := Val{T: x.freshConst("opened", "Bool"), S: "Bool", G: types.Typ[types.Bool]}
	// a receive that completes was not on a nil channel (a nil channel blocks for ever: in a
	// select its case is never taken)
	if id, isID := ast.Unparen(ch).(*ast.Ident); isID {
		if o, isVar := x.info().Uses[id].(*types.Var); isVar {
			if cv, has := st.vars[o]; has && cv.S == "Int" {
				st.assume(not(app("=", cv.T, "0")))
			}
		}
	}
	ev, wild := x.findEvent("recv", ch)
	var ost *State
	if ev == nil {
		ev, wild, ost = x.findEventByOrigin(st, "recv", ch, site)
	}
	if ev == nil {
		// a channel no contract knows: an arbitrary value arrives after an arbitrary time; nothing is
		// recorded in the ghost state, so whatever the property needs to know about this receive
		// is missing where it is needed
		fmt.Printf("NOTE %s: receive on a channel without a hook (%s): arbitrary value, time passes\n", x.fn.name(), types.ExprString(ch))
		ev = &EventSpec{Kind: "recv", Pkg: x.fn.pkgPath(), Pattern: types.ExprString(ch)}
		wild = nil
	}
	binds := map[string]Val{}
	if ost != nil {
		x.bindWild(ost, wild, binds)
	} else {
		x.bindWild(st, wild, binds)
	}
	if len(ev.Vars) > 0 {
		binds[ev.Vars[0]] = v
	}
	if len(ev.Vars) > 1 {
		binds[ev.Vars[1]] = ok
	}
	st.note("recv " + types.ExprString(ch))
	x.runEvent(st, site, ev, binds)
	return v, ok
}

// findEventByOrigin: the channel expression is a local / parameter holding a value that was read
// from an expression a hook knows (remembered origin). The hook applies with the wildcards
// evaluated as they were when the value was read - under the obligation that the expression
// still yields this very channel now.
func (x *Exec) findEventByOrigin(st *State, kind string, ch ast.Expr, site ast.Node) (*EventSpec, map[string]ast.Expr, *State) {
	id, ok := ast.Unparen(ch).(*ast.Ident)
	if !ok {
		return nil, nil, nil
	}
	o, ok := x.info().Uses[id].(*types.Var)
	if !ok {
		return nil, nil, nil
	}
	cur, ok := st.vars[o]
	if !ok || cur.Org == nil {
		return nil, nil, nil
	}
	ev, wild := x.findEvent(kind, cur.Org.expr)
	if ev == nil {
		return nil, nil, nil
	}
	// a state with the current heap and the identifiers as they were at the time of the read
	still := x.originHolds(st, cur)
	ost := st.fork()
	for obj, val := range cur.Org.env {
		ost.vars[obj] = val
	}
	var tags []string
	for _, c := range ev.Clauses {
		for _, tg := range c.Tags {
			if !hasTag(tags, tg) {
				tags = append(tags, tg)
			}
		}
	}
	if len(tags) == 0 {
		tags = []string{"*"}
	}
	x.oblige(st, "requires", fmt.Sprintf("%s[%d:%s]:cached-channel-is-still-%s", kind, x.ordinal(site), id.Name, sane(types.ExprString(cur.Org.expr))), tags, still)
	fmt.Printf("NOTE %s: %s on %s is matched through the expression it was read from (%s)\n", x.fn.name(), kind, id.Name, types.ExprString(cur.Org.expr))
	return ev, wild, ost
}

// originHolds: the term "the remembered expression of v still yields v" in state st.
func (x *Exec) originHolds(st *State, v Val) string {
	ost := st.fork()
	for obj, val := range v.Org.env {
		ost.vars[obj] = val
	}
	n0 := len(x.qs)
	now := x.evalOrigin(ost, v.Org.expr)
	x.qs = x.qs[:n0] // safety obligations of the re-evaluation were checked where the value was read
	st.pc = ost.pc[:len(ost.pc):len(ost.pc)]
	for k, hv := range ost.heap {
		if _, has := st.heap[k]; !has {
			st.heap[k] = hv
		}
	}
	return app("=", now.T, v.T)
}

// evalOrigin evaluates a remembered expression; selector nodes built by withOrigin are not in
// the type information and are evaluated structurally.
func (x *Exec) evalOrigin(st *State, e ast.Expr) Val {
	if sel, ok := e.(*ast.SelectorExpr); ok {
		if _, known := x.info().Selections[sel]; !known {
			if _, isPkg := x.info().Uses[sel.Sel]; !isPkg || x.info().TypeOf(sel) == nil {
				base := x.evalOrigin(st, sel.X)
				v := x.structField(base, sel.Sel.Name)
				if _, stt := ptrStruct(base.G); stt != nil {
					for i := 0; i < stt.NumFields(); i++ {
						if stt.Field(i).Name() == sel.Sel.Name {
							v.G = stt.Field(i).Type()
						}
					}
				} else if stt, ok := types.Unalias(base.G).Underlying().(*types.Struct); ok {
					for i := 0; i < stt.NumFields(); i++ {
						if stt.Field(i).Name() == sel.Sel.Name {
							v.G = stt.Field(i).Type()
						}
					}
				}
				return v
			}
		}
	}
	return x.eval(st, e)
}

func (x *Exec) sendEvent(st *State, ch ast.Expr, v Val, site ast.Node) {
	ev, wild := x.findEvent("send", ch)
	var ost *State
	if ev == nil {
		ev, wild, ost = x.findEventByOrigin(st, "send", ch, site)
	}
	if ev == nil {
		x.unsupported(site, "send on undeclared channel role "+types.ExprString(ch))
		return
	}
	binds := map[string]Val{}
	if ost != nil {
		x.bindWild(ost, wild, binds)
	} else {
		x.bindWild(st, wild, binds)
	}
	if len(ev.Vars) > 0 {
		binds[ev.Vars[0]] = v
	}
	st.note("send " + types.ExprString(ch))
	x.runEvent(st, site, ev, binds)
}

func (x *Exec) closeEvent(st *State, ch ast.Expr, site ast.Node) {
	ev, wild := x.findEvent("close", ch)
	if ev == nil {
		x.unsupported(site, "close of undeclared channel role "+types.ExprString(ch))
		return
	}
	binds := map[string]Val{}
	x.bindWild(st, wild, binds)
	st.note("close " + types.ExprString(ch))
	x.runEvent(st, site, ev, binds)
}

// heapWriteHook runs the ownership hook for a write into backing array ref.
func (x *Exec) heapWriteHook(st *State, site ast.Node, ref string) {
	ev, _ := x.findEvent("heapwrite", nil)
	if ev == nil {
		return
	}
	binds := map[string]Val{}
	if len(ev.Vars) > 0 {
		binds[ev.Vars[0]] = Val{T: ref, S: "Int"}
	}
	x.runEvent(st, site, ev, binds)
}
