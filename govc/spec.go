package main

// Contract files: comment lines starting with "//@" in verif_contracts.go files of the
// packages under verification and in /verif/specs/externals.spec. This file holds the
// line-level parser of those files and the Pratt parser of specification expressions.

import (
	"fmt"
	"os"
	"regexp"
	"strconv"
	"strings"
)

// SX is a specification expression.
type SX struct {
	Op   string // int bool nil id sel idx call un bin forall exists
	Name string // identifier, field, operator or callee name
	Args []*SX
	Vars []string // bound variables
	Pos  string
}

func (e *SX) String() string {
	switch e.Op {
	case "int", "bool", "nil", "id":
		return e.Name
	case "sel":
		return e.Args[0].String() + "." + e.Name
	case "idx":
		return e.Args[0].String() + "[" + e.Args[1].String() + "]"
	case "call":
		var a []string
		for _, x := range e.Args {
			a = append(a, x.String())
		}
		return e.Name + "(" + strings.Join(a, ", ") + ")"
	case "un":
		return e.Name + e.Args[0].String()
	case "bin":
		return "(" + e.Args[0].String() + " " + e.Name + " " + e.Args[1].String() + ")"
	case "forall", "exists":
		return "(" + e.Op + " " + strings.Join(e.Vars, ", ") + " :: " + e.Args[0].String() + ")"
	}
	return "?"
}

type Clause struct {
	Kind   string // requires ensures invariant assume-env effect assert decreases modifies lemma
	Tags   []string
	Label  string
	Text   string
	Expr   *SX
	Target string // effect: ghost variable assigned
	Exprs  []*SX  // modifies: targets
	Where  string
}

// relevant reports whether the clause belongs to the slice of property prop.
func (c *Clause) relevant(prop string) bool {
	if prop == "" || len(c.Tags) == 0 {
		return true
	}
	for _, t := range c.Tags {
		if t == "*" || t == prop {
			return true
		}
	}
	return false
}

type LoopSpec struct {
	Ord     int
	Sig     string
	Clauses []*Clause
}

type FuncSpec struct {
	Pkg       string
	Key       string
	Params    []string // externals only: receiver first
	Clauses   []*Clause
	Loops     map[int]*LoopSpec
	Trusted   bool
	Allocates bool
	Pure      bool
	Blocking  bool // the call can block (C16, rule SB)
	MayDiverge bool // the function need not return (no vacuity alarm for unreachable returns)
	MayDivergeFor map[string]bool // ... only in the slices of these properties ("may-diverge [C05]": the environment of the property excludes every way out)
	Wraps     map[string]bool
	Where     string
	External  bool
	Assumed   map[string]bool // arithmetic obligations replaced by listed assumptions
	Reveals   map[string]bool // opaque predicates whose definition this function's proof uses
}

type EventSpec struct {
	In      string // optional: only in the function with this key suffix
	Pkg     string
	Kind    string // send recv close
	Pattern string
	Vars    []string
	Clauses []*Clause
	Where   string
}

type PredSpec struct {
	Pkg     string
	Name    string
	Params  []string
	Clauses []*Clause
	Opaque  bool // an uninterpreted application outside the functions that reveal it
}

type GhostDecl struct {
	Tags  []string // properties whose frame obligations this variable carries
	Pkg   string
	Name  string // variable name, or Type.field
	Sort  string
	Field bool
}

type FuncTypeSpec struct {
	Pkg     string
	Name    string
	Params  []string
	Clauses []*Clause
	Allocates bool
}

type ConfineSpec struct {
	Pkg      string
	Type     string
	Confined []string
	Shared   []string
	Entries  []string // goroutine entry functions
	Ctors    []string
}

type Specs struct {
	Funcs     map[string]*FuncSpec // pkg + "." + key
	Events    []*EventSpec
	Preds     map[string]*PredSpec // pkg + "." + name ; externals: name only
	Ghosts    map[string]*GhostDecl
	FuncTypes map[string]*FuncTypeSpec
	Confines  []*ConfineSpec
	StopRules []*StopSpec
	SMTAxioms []string // raw SMT-LIB assertions about the uninterpreted float functions (assumed)
	Stale     map[string]*FuncSpec // contracts whose function changed its signature: only their loop specs are used
}

type StopSpec struct {
	Pkg     string
	Entries []string
	Lines   []string
}

func newSpecs() *Specs {
	return &Specs{Funcs: map[string]*FuncSpec{}, Preds: map[string]*PredSpec{}, Ghosts: map[string]*GhostDecl{}, FuncTypes: map[string]*FuncTypeSpec{}}
}

var clauseKinds = map[string]bool{"requires": true, "ensures": true, "invariant": true, "assume-env": true,
	"effect": true, "effect-after": true, "assert": true, "decreases": true, "modifies": true, "lemma": true, "assume-arith": true}

var tagRe = regexp.MustCompile(`^\[([^\]]*)\]\s*`)
var labelRe = regexp.MustCompile(`^([A-Za-z][A-Za-z0-9_\-]*):\s+`)

// parseSpecFile reads the //@ lines of a file. pkg is the package path the file belongs to
// ("" for the externals file, whose func headers carry their own package path).
func (sp *Specs) parseSpecFile(path, pkg string) error {
	data, err := os.ReadFile(path)
	if err != nil {
		return err
	}
	type line struct {
		n    int
		text string
	}
	var lines []line
	for i, l := range strings.Split(string(data), "\n") {
		t := strings.TrimSpace(l)
		if !strings.HasPrefix(t, "//@") {
			continue
		}
		t = strings.TrimPrefix(t, "//@")
		if i := strings.Index(t, " //"); i >= 0 { // trailing comment
			t = t[:i]
		}
		if strings.TrimSpace(t) == "" {
			continue
		}
		lines = append(lines, line{i + 1, t})
	}
	var curF *FuncSpec
	var curL *LoopSpec
	var curE *EventSpec
	var curP *PredSpec
	var curFT *FuncTypeSpec
	var last *Clause
	finish := func() error {
		if last != nil && last.Expr == nil && last.Kind != "modifies" {
			e, err := parseSX(last.Text, last.Where)
			if err != nil {
				return err
			}
			last.Expr = e
		}
		if last != nil && last.Kind == "modifies" {
			for _, part := range splitTop(last.Text, ',') {
				part = strings.TrimSpace(part)
				if part == "" || part == "nothing" {
					continue
				}
				e, err := parseSX(part, last.Where)
				if err != nil {
					return err
				}
				last.Exprs = append(last.Exprs, e)
			}
		}
		last = nil
		return nil
	}
	addClause := func(c *Clause) {
		switch {
		case curL != nil && (c.Kind == "invariant" || c.Kind == "decreases" || c.Kind == "lemma"):
			curL.Clauses = append(curL.Clauses, c)
		case curF != nil:
			curF.Clauses = append(curF.Clauses, c)
		case curE != nil:
			curE.Clauses = append(curE.Clauses, c)
		case curP != nil:
			curP.Clauses = append(curP.Clauses, c)
		case curFT != nil:
			curFT.Clauses = append(curFT.Clauses, c)
		}
	}
	for _, ln := range lines {
		where := fmt.Sprintf("%s:%d", path, ln.n)
		f := strings.Fields(ln.text)
		kw := f[0]
		rest := strings.TrimSpace(strings.TrimPrefix(strings.TrimSpace(ln.text), kw))
		switch {
		case kw == "func":
			if err := finish(); err != nil {
				return err
			}
			curF, curL, curE, curP, curFT = &FuncSpec{Pkg: pkg, Loops: map[int]*LoopSpec{}, Wraps: map[string]bool{}, Assumed: map[string]bool{}, Where: where}, nil, nil, nil, nil
			hdr := rest
			if pkg == "" {
				// external header with parameter names: pkg.(*T).M(z, x, y) or pkg.F(x)
				if !strings.HasSuffix(hdr, ")") {
					return fmt.Errorf("%s: external func header needs a parameter list", where)
				}
				j := strings.LastIndex(hdr, "(")
				ps := strings.TrimSuffix(hdr[j+1:], ")")
				hdr = hdr[:j]
				for _, p := range strings.FieldsFunc(ps, func(r rune) bool { return r == ',' || r == ';' || r == ' ' }) {
					curF.Params = append(curF.Params, p)
				}
			}
			if pkg == "" {
				// externals: "time.Now", "math/big.(*Int).Mul"
				k := strings.LastIndex(hdr, "/")
				d := strings.Index(hdr[k+1:], ".")
				curF.Pkg = hdr[:k+1+d]
				hdr = hdr[k+1+d+1:]
				curF.External = true
			}
			curF.Key = hdr
			sp.Funcs[curF.Pkg+"."+curF.Key] = curF
		case kw == "loop":
			if err := finish(); err != nil {
				return err
			}
			n, err := strconv.Atoi(f[1])
			if err != nil || curF == nil {
				return fmt.Errorf("%s: bad loop header", where)
			}
			curL = &LoopSpec{Ord: n, Sig: strings.TrimSpace(strings.TrimPrefix(rest, f[1]))}
			curF.Loops[n] = curL
		case kw == "event":
			if err := finish(); err != nil {
				return err
			}
			curF, curL, curP, curFT = nil, nil, nil, nil
			curE = &EventSpec{Pkg: pkg, Kind: f[1], Where: where}
			r := strings.TrimSpace(strings.TrimPrefix(rest, f[1]))
			if i := strings.LastIndex(r, " in "); i >= 0 && !strings.Contains(r[i+4:], " ") {
				curE.In = strings.TrimSpace(r[i+4:])
				r = strings.TrimSpace(r[:i])
			}
			r = " " + r
			if i := strings.LastIndex(r, " ("); i >= 0 && strings.HasSuffix(r, ")") {
				for _, v := range strings.FieldsFunc(r[i+2:len(r)-1], func(r rune) bool { return r == ',' || r == ' ' }) {
					curE.Vars = append(curE.Vars, v)
				}
				r = strings.TrimSpace(r[:i])
			}
			curE.Pattern = strings.TrimSpace(r)
			sp.Events = append(sp.Events, curE)
		case kw == "pred":
			if err := finish(); err != nil {
				return err
			}
			curF, curL, curE, curFT = nil, nil, nil, nil
			i := strings.Index(rest, "(")
			j := strings.Index(rest, ")")
			curP = &PredSpec{Pkg: pkg, Name: rest[:i], Opaque: strings.HasSuffix(strings.TrimSpace(rest), " opaque")}
			for _, p := range strings.Split(rest[i+1:j], ",") {
				if p = strings.TrimSpace(p); p != "" {
					curP.Params = append(curP.Params, strings.Fields(p)[0])
				}
			}
			sp.Preds[pkg+"."+curP.Name] = curP
			if k := strings.Index(rest, ":="); k >= 0 {
				c := &Clause{Kind: "pred", Text: strings.TrimSpace(rest[k+2:]), Where: where, Tags: []string{"*"}}
				curP.Clauses = append(curP.Clauses, c)
				last = c
			}
		case kw == "functype":
			if err := finish(); err != nil {
				return err
			}
			curF, curL, curE, curP = nil, nil, nil, nil
			i := strings.Index(rest, "(")
			curFT = &FuncTypeSpec{Pkg: pkg, Name: rest[:i]}
			for _, p := range strings.Split(strings.TrimSuffix(rest[i+1:], ")"), ",") {
				if p = strings.TrimSpace(p); p != "" {
					curFT.Params = append(curFT.Params, p)
				}
			}
			sp.FuncTypes[pkg+"."+curFT.Name] = curFT
		case kw == "smt-axiom":
			if err := finish(); err != nil {
				return err
			}
			sp.SMTAxioms = append(sp.SMTAxioms, rest)
		case kw == "ghost":
			if err := finish(); err != nil {
				return err
			}
			// ghost var name sort... | ghost field Type.name sort...
			// ghost var name sort [C06 C07]: the properties that rest on the variable changing only
			// where a contract says so (tags of its frame obligations)
			var gtags []string
			fs := f
			if m := regexp.MustCompile(`\s*\[([A-Z0-9* ]+)\]\s*$`).FindStringSubmatch(rest); m != nil {
				gtags = strings.Fields(m[1])
				fs = strings.Fields(strings.TrimSpace(strings.TrimSuffix(strings.TrimSpace(ln.text), strings.TrimSpace(m[0]))))
			}
			f = fs
			g := &GhostDecl{Pkg: pkg, Name: f[2], Sort: miniSort(strings.Join(f[3:], " ")), Field: f[1] == "field", Tags: gtags}
			if g.Field {
				sp.Ghosts["field:"+g.Name] = g
			} else {
				sp.Ghosts[pkg+"."+g.Name] = g
			}
		case kw == "confine":
			if err := finish(); err != nil {
				return err
			}
			c := &ConfineSpec{Pkg: pkg, Type: f[1]}
			sp.Confines = append(sp.Confines, c)
			curF, curL, curE, curP, curFT = nil, nil, nil, nil, nil
		case kw == "confined" || kw == "shared" || kw == "entries" || kw == "ctors":
			if len(sp.Confines) == 0 {
				return fmt.Errorf("%s: %s outside confine block", where, kw)
			}
			c := sp.Confines[len(sp.Confines)-1]
			switch kw {
			case "confined":
				c.Confined = append(c.Confined, f[1:]...)
			case "shared":
				c.Shared = append(c.Shared, f[1:]...)
			case "entries":
				c.Entries = append(c.Entries, f[1:]...)
			case "ctors":
				c.Ctors = append(c.Ctors, f[1:]...)
			}
		case kw == "stoprule":
			if err := finish(); err != nil {
				return err
			}
			sp.StopRules = append(sp.StopRules, &StopSpec{Pkg: pkg, Entries: f[1:]})
			curF, curL, curE, curP, curFT = nil, nil, nil, nil, nil
		case kw == "stop":
			if len(sp.StopRules) == 0 {
				return fmt.Errorf("%s: stop outside stoprule block", where)
			}
			s := sp.StopRules[len(sp.StopRules)-1]
			s.Lines = append(s.Lines, rest)
		case kw == "trusted" && curF != nil:
			curF.Trusted = true
		case kw == "allocates" && curF != nil:
			curF.Allocates = true
		case kw == "allocates" && curFT != nil:
			curFT.Allocates = true
		case kw == "pure" && curF != nil:
			curF.Pure = true
		case kw == "blocking" && curF != nil:
			curF.Blocking = true
		case kw == "may-diverge" && curF != nil:
			if t := strings.TrimSpace(rest); strings.HasPrefix(t, "[") && strings.HasSuffix(t, "]") {
				if curF.MayDivergeFor == nil {
					curF.MayDivergeFor = map[string]bool{}
				}
				for _, w := range strings.Fields(t[1 : len(t)-1]) {
					curF.MayDivergeFor[w] = true
				}
			} else {
				curF.MayDiverge = true
			}
		case kw == "reveal" && curF != nil:
			if curF.Reveals == nil {
				curF.Reveals = map[string]bool{}
			}
			for _, w := range f[1:] {
				curF.Reveals[w] = true
			}
		case kw == "wraps" && curF != nil:
			for _, w := range f[1:] {
				curF.Wraps[w] = true
			}
		case clauseKinds[kw]:
			if err := finish(); err != nil {
				return err
			}
			c := &Clause{Kind: kw, Where: where}
			if m := tagRe.FindStringSubmatch(rest); m != nil {
				c.Tags = strings.Fields(m[1])
				rest = rest[len(m[0]):]
			}
			if m := labelRe.FindStringSubmatch(rest); m != nil && kw != "effect" && kw != "effect-after" {
				c.Label = m[1]
				rest = rest[len(m[0]):]
			}
			if kw == "effect" || kw == "effect-after" {
				i := strings.Index(rest, ":=")
				if i < 0 {
					return fmt.Errorf("%s: effect needs :=", where)
				}
				c.Target = strings.TrimSpace(rest[:i])
				rest = strings.TrimSpace(rest[i+2:])
			}
			if kw == "assume-arith" {
				if curF == nil {
					return fmt.Errorf("%s: assume-arith outside func", where)
				}
				for _, w := range strings.Fields(rest) {
					curF.Assumed[w] = true
				}
				continue
			}
			c.Text = rest
			addClause(c)
			last = c
		case strings.HasPrefix(kw, "[") && curP != nil:
			// tagged clause of a predicate
			if err := finish(); err != nil {
				return err
			}
			c := &Clause{Kind: "pred", Where: where}
			r := strings.TrimSpace(ln.text)
			if m := tagRe.FindStringSubmatch(r); m != nil {
				c.Tags = strings.Fields(m[1])
				r = r[len(m[0]):]
			}
			if m := labelRe.FindStringSubmatch(r); m != nil {
				c.Label = m[1]
				r = r[len(m[0]):]
			}
			c.Text = r
			curP.Clauses = append(curP.Clauses, c)
			last = c
		default:
			if last == nil {
				return fmt.Errorf("%s: unexpected line %q", where, ln.text)
			}
			last.Text += " " + strings.TrimSpace(ln.text)
		}
	}
	return finish()
}

func splitTop(s string, sep byte) []string {
	var out []string
	depth, start := 0, 0
	for i := 0; i < len(s); i++ {
		switch s[i] {
		case '(', '[':
			depth++
		case ')', ']':
			depth--
		case sep:
			if depth == 0 {
				out = append(out, s[start:i])
				start = i + 1
			}
		}
	}
	return append(out, s[start:])
}

// miniSort maps the small type language of ghost declarations to SMT sorts.
func miniSort(t string) string {
	t = strings.TrimSpace(t)
	switch t {
	case "int", "uint", "ref", "time", "uint64", "int64":
		return "Int"
	case "bool":
		return "Bool"
	case "T":
		return "T"
	case "F", "float64":
		return "F"
	case "set":
		return "(Array Int Bool)"
	case "slice":
		return "Slice"
	}
	if strings.HasPrefix(t, "map[int]") {
		return "(Array Int " + miniSort(t[len("map[int]"):]) + ")"
	}
	if strings.HasPrefix(t, "seq[") && strings.HasSuffix(t, "]") {
		return "(Array Int " + miniSort(t[4:len(t)-1]) + ")"
	}
	if strings.HasPrefix(t, "[]") {
		return "Slice"
	}
	return t
}

// ---------------------------------------------------------------- expression parser

type tok struct {
	k string // id int op eof
	v string
}

func lexSX(s string) ([]tok, error) {
	var out []tok
	i := 0
	ops := []string{"<==>", "==>", "::", "==", "!=", "<=", ">=", "&&", "||", "<<", "<", ">", "!", "+", "-", "*", "/", "%", "(", ")", "[", "]", ",", ".", "{", "}", ":"}
	for i < len(s) {
		c := s[i]
		switch {
		case c == ' ' || c == '\t':
			i++
		case c >= '0' && c <= '9':
			j := i
			for j < len(s) && (s[j] >= '0' && s[j] <= '9' || s[j] == '_') {
				j++
			}
			out = append(out, tok{"int", strings.ReplaceAll(s[i:j], "_", "")})
			i = j
		case c == '_' || c == '$' || c >= 'a' && c <= 'z' || c >= 'A' && c <= 'Z':
			j := i + 1
			for j < len(s) && (s[j] == '_' || s[j] >= 'a' && s[j] <= 'z' || s[j] >= 'A' && s[j] <= 'Z' || s[j] >= '0' && s[j] <= '9') {
				j++
			}
			out = append(out, tok{"id", s[i:j]})
			i = j
		default:
			found := false
			for _, o := range ops {
				if strings.HasPrefix(s[i:], o) {
					out = append(out, tok{"op", o})
					i += len(o)
					found = true
					break
				}
			}
			if !found {
				return nil, fmt.Errorf("bad character %q in %q", c, s)
			}
		}
	}
	return append(out, tok{"eof", ""}), nil
}

type sxParser struct {
	t   []tok
	p   int
	pos string
}

func parseSX(s, pos string) (*SX, error) {
	t, err := lexSX(s)
	if err != nil {
		return nil, fmt.Errorf("%s: %v", pos, err)
	}
	p := &sxParser{t: t, pos: pos}
	e, err := p.expr(0)
	if err != nil {
		return nil, fmt.Errorf("%s: %v in %q", pos, err, s)
	}
	if p.t[p.p].k != "eof" {
		return nil, fmt.Errorf("%s: trailing %q in %q", pos, p.t[p.p].v, s)
	}
	return e, nil
}

var binPrec = map[string]int{"<==>": 1, "==>": 2, "||": 3, "&&": 4, "==": 5, "!=": 5, "<": 5, "<=": 5, ">": 5, ">=": 5,
	"+": 6, "-": 6, "*": 7, "/": 7, "%": 7, "<<": 7}

func (p *sxParser) peek() tok { return p.t[p.p] }
func (p *sxParser) next() tok  { t := p.t[p.p]; p.p++; return t }
func (p *sxParser) expect(v string) error {
	if p.peek().v != v {
		return fmt.Errorf("expected %q, got %q", v, p.peek().v)
	}
	p.p++
	return nil
}

func (p *sxParser) expr(min int) (*SX, error) {
	lhs, err := p.unary()
	if err != nil {
		return nil, err
	}
	for {
		t := p.peek()
		pr, ok := binPrec[t.v]
		if t.k != "op" || !ok || pr < min {
			return lhs, nil
		}
		p.next()
		nm := pr + 1
		if t.v == "==>" {
			nm = pr // right associative
		}
		rhs, err := p.expr(nm)
		if err != nil {
			return nil, err
		}
		lhs = &SX{Op: "bin", Name: t.v, Args: []*SX{lhs, rhs}, Pos: p.pos}
	}
}

func (p *sxParser) unary() (*SX, error) {
	t := p.peek()
	if t.k == "op" && (t.v == "!" || t.v == "-") {
		p.next()
		a, err := p.unary()
		if err != nil {
			return nil, err
		}
		return &SX{Op: "un", Name: t.v, Args: []*SX{a}, Pos: p.pos}, nil
	}
	if t.k == "id" && (t.v == "forall" || t.v == "exists") {
		p.next()
		var vars []string
		for {
			v := p.next()
			if v.k != "id" {
				return nil, fmt.Errorf("bound variable expected")
			}
			vars = append(vars, v.v)
			if p.peek().v == "," {
				p.next()
				continue
			}
			break
		}
		if err := p.expect("::"); err != nil {
			return nil, err
		}
		body, err := p.expr(0)
		if err != nil {
			return nil, err
		}
		return &SX{Op: t.v, Vars: vars, Args: []*SX{body}, Pos: p.pos}, nil
	}
	return p.postfix()
}

func (p *sxParser) postfix() (*SX, error) {
	t := p.next()
	var e *SX
	switch {
	case t.k == "int":
		e = &SX{Op: "int", Name: t.v}
	case t.k == "id" && (t.v == "true" || t.v == "false"):
		e = &SX{Op: "bool", Name: t.v}
	case t.k == "id" && t.v == "nil":
		e = &SX{Op: "nil", Name: "nil"}
	case t.k == "id":
		e = &SX{Op: "id", Name: t.v}
	case t.v == "(":
		x, err := p.expr(0)
		if err != nil {
			return nil, err
		}
		if err := p.expect(")"); err != nil {
			return nil, err
		}
		e = x
	default:
		return nil, fmt.Errorf("unexpected %q", t.v)
	}
	e.Pos = p.pos
	for {
		t := p.peek()
		switch {
		case t.v == ".":
			p.next()
			f := p.next()
			if f.k != "id" {
				return nil, fmt.Errorf("field name expected")
			}
			e = &SX{Op: "sel", Name: f.v, Args: []*SX{e}, Pos: p.pos}
		case t.v == "[":
			p.next()
			i, err := p.expr(0)
			if err != nil {
				return nil, err
			}
			if err := p.expect("]"); err != nil {
				return nil, err
			}
			e = &SX{Op: "idx", Args: []*SX{e, i}, Pos: p.pos}
		case t.v == "(" && (e.Op == "id" || e.Op == "sel"):
			p.next()
			var args []*SX
			for p.peek().v != ")" {
				a, err := p.expr(0)
				if err != nil {
					return nil, err
				}
				args = append(args, a)
				if p.peek().v == "," {
					p.next()
				}
			}
			p.next()
			name := e.Name
			if e.Op == "sel" {
				name = e.Args[0].String() + "." + e.Name
			}
			e = &SX{Op: "call", Name: name, Args: args, Pos: p.pos}
		default:
			return e, nil
		}
	}
}
