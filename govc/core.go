package main

// Value and memory model (DESIGN.md §2.2): SMT sorts for Go types, the symbolic state,
// heap components, allocation, integer ranges.

import (
	"fmt"
	"go/ast"
	"go/types"
	"regexp"
	"sort"
	"strings"
)

type Val struct {
	T string     // SMT term
	S string     // SMT sort
	G types.Type // Go type, when known
	Org *origin  // where the value was read from (field / map entry), for hook matching of cached values
	E string     // element sort for slices whose Go type is unknown
}

const (
	two63 = "9223372036854775808"
	two64 = "18446744073709551616"
)

func app(op string, args ...string) string {
	return "(" + op + " " + strings.Join(args, " ") + ")"
}

func and(xs ...string) string {
	var ys []string
	for _, x := range xs {
		if x == "true" || x == "" {
			continue
		}
		ys = append(ys, x)
	}
	switch len(ys) {
	case 0:
		return "true"
	case 1:
		return ys[0]
	}
	return app("and", ys...)
}

func or(xs ...string) string {
	if len(xs) == 0 {
		return "false"
	}
	if len(xs) == 1 {
		return xs[0]
	}
	return app("or", xs...)
}

func not(x string) string {
	if x == "true" {
		return "false"
	}
	if x == "false" {
		return "true"
	}
	return app("not", x)
}

func implies(a, b string) string {
	if a == "true" {
		return b
	}
	return app("=>", a, b)
}

func intLit(s string) string {
	if strings.HasPrefix(s, "-") {
		return "(- " + s[1:] + ")"
	}
	return s
}

var saneRe = regexp.MustCompile(`[^A-Za-z0-9_]`)

func sane(s string) string { return saneRe.ReplaceAllString(s, "_") }

// ------------------------------------------------------------------ world: sorts, datatypes

type dtField struct {
	Name string
	Sort string
	G    types.Type
}

type datatype struct {
	Name   string
	Fields []dtField
}

type World struct {
	dts     map[string]*datatype
	dtOrder []string
	errIDs  map[string]int // package-level error variables -> distinct negative ids
	fconsts map[string]bool
	fnrefs  map[string]int
}

func newWorld() *World {
	w := &World{dts: map[string]*datatype{}, errIDs: map[string]int{}, fconsts: map[string]bool{}, fnrefs: map[string]int{}}
	return w
}

func typeKey(t types.Type) (pkgName, name string) {
	switch n := t.(type) {
	case *types.Named:
		o := n.Obj()
		if o.Pkg() != nil {
			return o.Pkg().Name(), o.Name()
		}
		return "", o.Name()
	case *types.Alias:
		return typeKey(types.Unalias(n))
	}
	return "", ""
}

// typeID names a named type uniquely across the two modules (v1 and v2 have packages of
// the same name).
func typeID(n *types.Named) string {
	o := n.Obj()
	if o.Pkg() == nil {
		return sane(o.Name())
	}
	p := o.Pkg().Path()
	if strings.HasPrefix(p, modRoot+"/") {
		p = strings.TrimPrefix(p, modRoot+"/")
	} else if p == modRoot {
		p = "root"
	} else if i := strings.LastIndex(p, "/"); i >= 0 {
		p = p[i+1:]
	}
	return sane(p) + "_" + sane(o.Name())
}

func isTimeTime(t types.Type) bool {
	if n, ok := types.Unalias(t).(*types.Named); ok {
		return n.Obj().Pkg() != nil && n.Obj().Pkg().Path() == "time" && n.Obj().Name() == "Time"
	}
	return false
}

func (w *World) sortOf(t types.Type) string {
	t = types.Unalias(t)
	if isTimeTime(t) {
		return "Int"
	}
	switch u := t.(type) {
	case *types.TypeParam:
		if integerTypeParam(u) {
			return "Int" // every type of the constraint's type set is an integer type (width unknown)
		}
		return "T"
	case *types.Named:
		if st, ok := u.Underlying().(*types.Struct); ok {
			if st.NumFields() == 0 {
				return "Int"
			}
			return w.structSort(u, st)
		}
		return w.sortOf(u.Underlying())
	case *types.Basic:
		switch {
		case u.Info()&types.IsBoolean != 0:
			return "Bool"
		case u.Info()&types.IsFloat != 0:
			return "F"
		}
		return "Int"
	case *types.Slice:
		return "Slice"
	case *types.Struct:
		if u.NumFields() == 0 {
			return "Int"
		}
		return w.structSort(nil, u)
	case *types.Tuple:
		return "Int"
	}
	return "Int" // pointers, maps, channels, functions, interfaces: references
}

func (w *World) structSort(n *types.Named, st *types.Struct) string {
	name := "DT_anon"
	if n != nil {
		name = "DT_" + typeID(n)
	} else {
		name = "DT_" + sane(st.String())
	}
	if _, ok := w.dts[name]; ok {
		return name
	}
	d := &datatype{Name: name}
	w.dts[name] = d
	for i := 0; i < st.NumFields(); i++ {
		f := st.Field(i)
		fname := f.Name()
		if fname == "_" {
			fname = fmt.Sprintf("_blank%d", len(d.Fields)) // blank fields are distinct accessors
		}
		d.Fields = append(d.Fields, dtField{fname, w.sortOf(f.Type()), f.Type()})
	}
	w.dtOrder = append(w.dtOrder, name)
	return name
}

func (w *World) zero(sortName string) string {
	switch sortName {
	case "Int":
		return "0"
	case "Bool":
		return "false"
	case "T":
		return "T_zero"
	case "F":
		return "f_zero"
	case "Slice":
		return "(mk_Slice 0 0 0 0)"
	}
	if d, ok := w.dts[sortName]; ok {
		var a []string
		for _, f := range d.Fields {
			a = append(a, w.zero(f.Sort))
		}
		return app("mk_"+d.Name, a...)
	}
	if strings.HasPrefix(sortName, "(Array Int ") {
		return "((as const " + sortName + ") " + w.zero(arrayElem(sortName)) + ")"
	}
	panic("zero of sort " + sortName)
}

func arrayElem(s string) string {
	if !strings.HasPrefix(s, "(Array Int ") {
		panic("not an array sort: " + s)
	}
	return s[len("(Array Int ") : len(s)-1]
}

func arrayOf(s string) string { return "(Array Int " + s + ")" }

// intRange returns the bounds of an integer Go type.
func intRange(t types.Type) (lo, hi string, ok bool) {
	if t == nil || isTimeTime(t) {
		return "", "", false
	}
	b, isb := types.Unalias(t).Underlying().(*types.Basic)
	if !isb || b.Info()&types.IsInteger == 0 {
		return "", "", false
	}
	switch b.Kind() {
	case types.Uint, types.Uint64, types.Uintptr:
		return "0", two64, true
	case types.Int, types.Int64:
		return "(- " + two63 + ")", two63, true
	case types.Uint32:
		return "0", "4294967296", true
	case types.Int32:
		return "(- 2147483648)", "2147483648", true
	case types.Uint16:
		return "0", "65536", true
	case types.Int16:
		return "(- 32768)", "32768", true
	case types.Uint8:
		return "0", "256", true
	case types.Int8:
		return "(- 128)", "128", true
	}
	return "", "", false
}

// integerTypeParam: the constraint of the type parameter admits integer types only
// (constraints.Integer and the like). Its values are mathematical integers in SMT; no
// overflow obligations are generated for them, the width is not known.
func integerTypeParam(tp *types.TypeParam) bool {
	iface, ok := tp.Constraint().Underlying().(*types.Interface)
	if !ok {
		return false
	}
	return integerTypeSet(iface, 0)
}

func integerTypeSet(iface *types.Interface, depth int) bool {
	if depth > 8 {
		return false
	}
	found := false
	for i := 0; i < iface.NumEmbeddeds(); i++ {
		switch e := types.Unalias(iface.EmbeddedType(i)).(type) {
		case *types.Union:
			for j := 0; j < e.Len(); j++ {
				tt := e.Term(j).Type()
				if in, ok := tt.Underlying().(*types.Interface); ok {
					if !integerTypeSet(in, depth+1) {
						return false
					}
					found = true
					continue
				}
				b, ok := tt.Underlying().(*types.Basic)
				if !ok || b.Info()&types.IsInteger == 0 {
					return false
				}
				found = true
			}
		case *types.Named:
			in, ok := e.Underlying().(*types.Interface)
			if !ok || !integerTypeSet(in, depth+1) {
				return false
			}
			found = true
		case *types.Interface:
			if !integerTypeSet(e, depth+1) {
				return false
			}
			found = true
		default:
			b, ok := e.Underlying().(*types.Basic)
			if !ok || b.Info()&types.IsInteger == 0 {
				return false
			}
			found = true
		}
	}
	return found
}

func isUnsigned(t types.Type) bool {
	b, ok := types.Unalias(t).Underlying().(*types.Basic)
	return ok && b.Info()&types.IsUnsigned != 0
}

func inRange(term string, t types.Type) string {
	lo, hi, ok := intRange(t)
	if !ok {
		return "true"
	}
	return and(app("<=", lo, term), app("<", term, hi))
}

func (w *World) prelude() string {
	var b strings.Builder
	b.WriteString("(set-option :produce-models true)\n(set-logic ALL)\n")
	b.WriteString("(declare-sort T 0)\n(declare-sort F 0)\n(declare-const T_zero T)\n(declare-const f_zero F)\n")
	b.WriteString("(declare-datatypes ((Slice 0)) (((mk_Slice (sl_arr Int) (sl_off Int) (sl_len Int) (sl_cap Int)))))\n")
	for _, n := range w.dtOrder {
		d := w.dts[n]
		var fs []string
		for _, f := range d.Fields {
			fs = append(fs, fmt.Sprintf("(%s_%s %s)", d.Name, sane(f.Name), f.Sort))
		}
		fmt.Fprintf(&b, "(declare-datatypes ((%s 0)) (((mk_%s %s))))\n", d.Name, d.Name, strings.Join(fs, " "))
	}
	b.WriteString(`(define-fun nn ((x Int)) Int (ite (>= x 0) x 0))
(define-fun tdiv ((a Int) (b Int)) Int (ite (>= a 0) (ite (> b 0) (div a b) (- (div a (- b)))) (ite (> b 0) (- (div (- a) b)) (div (- a) (- b)))))
(define-fun tmod ((a Int) (b Int)) Int (- a (* b (tdiv a b))))
(declare-fun at (Int Int) Int)
(assert (forall ((o Int) (i Int)) (! (= (at o i) (+ o i)) :pattern ((at o i)))))
(declare-fun msum ((Array Int Bool) (Array Int Int)) Int)
(declare-fun msumR ((Array Int Bool) (Array Int Int) (Array Int Bool)) Int)
(declare-fun lsum (Int Int (Array Int Int)) Int)
(declare-fun pset ((Array Int Int) Int Int) (Array Int Bool))
(declare-fun bshl (Int Int) Int)
(declare-fun bshr (Int Int) Int)
(declare-fun band (Int Int) Int)
(declare-fun bor (Int Int) Int)
(declare-fun bxor (Int Int) Int)
(declare-fun bandnot (Int Int) Int)
(declare-fun u2f (Int) F)
(declare-fun f2u (F) Int)
(declare-fun fdiv (F F) F)
(declare-fun fmul (F F) F)
(declare-fun fsub (F F) F)
(declare-fun fround (F) F)
(declare-fun fabs (F) F)
(declare-fun ffloor (F) F)
(declare-fun fceil (F) F)
(declare-fun ftrunc (F) F)
(declare-fun fpow (F F) F)
(declare-fun fle (F F) Bool)
(declare-fun flt (F F) Bool)
`)
	var fc []string
	for c := range w.fconsts {
		fc = append(fc, c)
	}
	sort.Strings(fc)
	for _, c := range fc {
		fmt.Fprintf(&b, "(declare-const %s F)\n", c)
	}
	return b.String()
}

// ------------------------------------------------------------------ state

type deferred struct {
	run func(st *State, x *Exec, k func(*State))
}

// origin: the expression a value was read from and the values its identifiers had then.
type origin struct {
	expr ast.Expr
	env  map[types.Object]Val
}

type State struct {
	vars    map[types.Object]Val
	heap    map[string]Val
	pc      []string
	cond    []string // guards of short-circuit contexts
	nextref string
	defers  []deferred
	trail   []string
	ghostTmp map[string]Val // spec-level bindings attached to the path (event variables)
	dead    bool
	writes  map[string][]wr // heap component -> locations written since function entry
	inlined map[*ast.CallExpr][]Val // results of calls that were executed inline
	seen    map[string]bool         // assumptions already on the path
	names   map[string]string       // named sub-terms (heap reads)
	polls   []poll                  // stop polls passed since the head of the innermost loop (C16)
	loopBinds map[string]Val        // $i<ord> / $range<ord> of the enclosing loops
	nameLog []string                // (term, constant) pairs in the order they were named
	brokenInv bool                  // the path passed the head of a loop one of whose invariants could not be evaluated (contract out of date)
	weak    bool                    // the path passed the head of a loop that has no invariant: states on it need not be reachable
	preArgs map[*ast.CallExpr][]Val // arguments of deferred calls, evaluated at the defer statement (Go semantics)
	inlineEntry *State              // state at the entry of the function being executed inline (old() of its loop invariants)
	writeFields map[string][]string // generic heap component (map / array contents) -> names of the struct fields through which it was written
	epoch   string                  // non-empty in the body of an anonymous goroutine: heap components first read there are fresh (nothing is known of them at that later, concurrent moment)
}

// poll is a point where the goroutine looks at the stop signals: a select with stop cases
// (stop = "true" on the stop branches, "false" on the others) or a call of a function whose
// contract says it polls (stop = the condition "the callee took a stop case").
type poll struct {
	site string
	stop string
}

// wr records a write into a heap component at reference ref ("*" = anywhere) under guard.
type wr struct {
	guard string
	ref   string
}

func (s *State) wrote(comp, ref, guard string) {
	if s.writes == nil {
		s.writes = map[string][]wr{}
	}
	w := wr{and(s.guard(), guard), ref}
	for _, o := range s.writes[comp] {
		if o == w {
			return
		}
	}
	l := s.writes[comp]
	s.writes[comp] = append(l[:len(l):len(l)], w)
}

// wroteThrough notes that heap component comp was written through the struct field the written
// map / slice had been read from (if it was).
func (s *State) wroteThrough(comp string, v Val) {
	if v.Org == nil {
		return
	}
	sel, ok := v.Org.expr.(*ast.SelectorExpr)
	if !ok {
		return
	}
	if s.writeFields == nil {
		s.writeFields = map[string][]string{}
	}
	for _, f := range s.writeFields[comp] {
		if f == sel.Sel.Name {
			return
		}
	}
	l := s.writeFields[comp]
	s.writeFields[comp] = append(l[:len(l):len(l)], sel.Sel.Name)
}

func (s *State) fork() *State {
	n := &State{vars: make(map[types.Object]Val, len(s.vars)), heap: make(map[string]Val, len(s.heap)), nextref: s.nextref, epoch: s.epoch}
	for k, v := range s.vars {
		n.vars[k] = v
	}
	for k, v := range s.heap {
		n.heap[k] = v
	}
	n.pc = s.pc[:len(s.pc):len(s.pc)]
	n.cond = s.cond[:len(s.cond):len(s.cond)]
	n.defers = s.defers[:len(s.defers):len(s.defers)]
	n.trail = s.trail[:len(s.trail):len(s.trail)]
	n.polls = s.polls[:len(s.polls):len(s.polls)]
	n.nameLog = s.nameLog[:len(s.nameLog):len(s.nameLog)]
	n.inlineEntry = s.inlineEntry
	if s.preArgs != nil {
		n.preArgs = make(map[*ast.CallExpr][]Val, len(s.preArgs))
		for k, v := range s.preArgs {
			n.preArgs[k] = v
		}
	}
	n.weak = s.weak
	n.brokenInv = s.brokenInv
	if s.writes != nil {
		n.writes = make(map[string][]wr, len(s.writes))
		for k, v := range s.writes {
			n.writes[k] = v
		}
	}
	if s.seen != nil {
		n.seen = make(map[string]bool, len(s.seen))
		for k := range s.seen {
			n.seen[k] = true
		}
	}
	if s.names != nil {
		n.names = make(map[string]string, len(s.names))
		for k, v := range s.names {
			n.names[k] = v
		}
	}
	if s.inlined != nil {
		n.inlined = make(map[*ast.CallExpr][]Val, len(s.inlined))
		for k, v := range s.inlined {
			n.inlined[k] = v
		}
	}
	if s.writeFields != nil {
		n.writeFields = map[string][]string{}
		for k, v := range s.writeFields {
			n.writeFields[k] = v
		}
	}
	if s.loopBinds != nil {
		n.loopBinds = map[string]Val{}
		for k, v := range s.loopBinds {
			n.loopBinds[k] = v
		}
	}
	if s.ghostTmp != nil {
		n.ghostTmp = map[string]Val{}
		for k, v := range s.ghostTmp {
			n.ghostTmp[k] = v
		}
	}
	return n
}

func (s *State) guard() string { return and(s.cond...) }

// assume adds a fact (under the current short-circuit guard).
func (s *State) assume(f string) {
	if f == "true" || f == "" {
		return
	}
	f = implies(s.guard(), f)
	if s.seen == nil {
		s.seen = map[string]bool{}
	}
	if s.seen[f] {
		return
	}
	s.seen[f] = true
	s.pc = append(s.pc, f)
}

func (s *State) note(t string) { s.trail = append(s.trail, t) }
