package main

// Symbolic evaluation of Go expressions (DESIGN.md §2.1, §2.2, Appendix C).

import (
	"fmt"
	"go/ast"
	"go/constant"
	"go/token"
	"go/types"
	"strings"
)

type Query struct {
	Ob     string // obligation name (several path queries may share it)
	Kind   string
	Func   string
	Tags   []string
	PC     []string
	Goal   string
	Trail  []string
	Expect string // "unsat" (goal negated must be unsat) or "sat" (cover)
	Decls  string
	Text   string
	Params map[string]string // parameter name -> SMT constant holding its entry value
	Observe []obsTerm        // terms whose model values describe the slice / map arguments (replay)
	BrokenPath bool          // the path passed a loop head whose invariants could not all be evaluated
	Weak   bool              // the path passed a loop head without invariants: a model need not be a reachable state
	Broken string            // the contract clause cannot be evaluated on this tree (it names something that is gone): never discharged
}

// obsTerm: a term evaluated in the counterexample model (get-value) for the replay.
type obsTerm struct {
	Name string
	Term string
}

type Exec struct {
	fieldTagCache map[string]bool // frame components whose field the property's contracts mention
	shared map[string]bool // heap components of struct fields declared shared in a confine block
	goEpoch int // anonymous goroutine bodies executed so far
	mute bool // an expression is being re-evaluated for its value only: its obligations were generated where the code evaluates it
	observe []obsTerm
	inlinedKeys []string
	ownLoops int // number of loops in the function under verification itself
	topSpec *FuncSpec // its contract (x.spec is swapped while a callee is executed inline)
	adopted map[ast.Stmt]int // loops of inlined helpers that took over an unmatched loop contract
	curInlineKey string // key of the function whose body is being executed inline (event filters "in f")
	w     *World
	sp    *Specs
	prog  *Program
	fn    *FuncInfo
	spec  *FuncSpec
	prop  string
	decls map[string]string
	order []string
	fresh int
	qs    []*Query
	ords  map[ast.Node]int
	entry *State
	errs  []string
	paths int
	retCovers []*Query
	params map[string]string
	inlineDepth  int
	inlinedFuncs []string
	bePaths      []*bePath
	localDecls   []types.Object    // variables declared in the function, in source order
	localOrd     map[types.Object]int
	usedLocals   map[string]int    // spec identifier -> declaration ordinal (recorded for rename robustness)
	anonGoroutines []string
}

func (x *Exec) info() *types.Info { return x.fn.pkg.TypesInfo }

func (x *Exec) unsupported(n ast.Node, msg string) {
	pos := ""
	if n != nil {
		pos = x.fn.pkg.Fset.Position(n.Pos()).String()
	}
	x.errs = append(x.errs, fmt.Sprintf("%s: %s: %s", x.fn.name(), pos, msg))
}

func (x *Exec) declare(name, sortName string) string {
	if _, ok := x.decls[name]; !ok {
		x.decls[name] = sortName
		x.order = append(x.order, name)
	}
	return name
}

func (x *Exec) freshConst(prefix, sortName string) string {
	x.fresh++
	return x.declare(fmt.Sprintf("%s!%d", sane(prefix), x.fresh), sortName)
}

// freshVal returns an arbitrary value of Go type t (with its range fact).
func (x *Exec) freshVal(st *State, prefix string, t types.Type) Val {
	v := Val{T: x.freshConst(prefix, x.w.sortOf(t)), S: x.w.sortOf(t), G: t}
	x.assumeWellTyped(st, v)
	return v
}

// assumeWellTyped adds the facts every value of the Go type satisfies.
func (x *Exec) assumeWellTyped(st *State, v Val) {
	if v.G == nil {
		return
	}
	if _, _, ok := intRange(v.G); ok {
		st.assume(inRange(v.T, v.G))
		return
	}
	t := types.Unalias(v.G)
	switch u := t.Underlying().(type) {
	case *types.Slice:
		st.assume(and(app("<=", "0", app("sl_len", v.T)), app("<=", app("sl_len", v.T), app("sl_cap", v.T)),
			app("<=", "0", app("sl_off", v.T)), app("<=", "0", app("sl_arr", v.T)), app("<", app("sl_arr", v.T), st.nextref),
			app("<", app("sl_cap", v.T), two63),
			implies(app("=", app("sl_arr", v.T), "0"), app("=", app("sl_cap", v.T), "0"))))
		// an object never exceeds MaxInt bytes (runtime: make and append panic otherwise)
		if sz := staticSize(u.Elem()); sz >= 2 {
			st.assume(app("<=", app("*", fmt.Sprint(sz), app("sl_cap", v.T)), "9223372036854775807"))
		}
	case *types.Struct:
		if isTimeTime(t) || u.NumFields() == 0 {
			return
		}
		for i := 0; i < u.NumFields(); i++ {
			f := u.Field(i)
			x.assumeWellTyped(st, x.structField(v, f.Name()))
		}
	case *types.Pointer, *types.Map, *types.Chan:
		st.assume(and(app("<=", "0", v.T), app("<", v.T, st.nextref)))
	}
}

// staticSize is the size in bytes of a value of type t on a 64-bit platform, 0 if unknown
// (type parameters) or zero.
func staticSize(t types.Type) (sz int64) {
	defer func() {
		if recover() != nil {
			sz = 0
		}
	}()
	if hasTypeParam(t, map[types.Type]bool{}) {
		return 0
	}
	return types.SizesFor("gc", "amd64").Sizeof(t)
}

func hasTypeParam(t types.Type, seen map[types.Type]bool) bool {
	if seen[t] {
		return false
	}
	seen[t] = true
	switch u := types.Unalias(t).(type) {
	case *types.TypeParam:
		return true
	case *types.Named:
		if ta := u.TypeArgs(); ta != nil {
			for i := 0; i < ta.Len(); i++ {
				if hasTypeParam(ta.At(i), seen) {
					return true
				}
			}
		}
		return hasTypeParam(u.Underlying(), seen)
	case *types.Struct:
		for i := 0; i < u.NumFields(); i++ {
			if hasTypeParam(u.Field(i).Type(), seen) {
				return true
			}
		}
	case *types.Array:
		return hasTypeParam(u.Elem(), seen)
	}
	return false
}

// ------------------------------------------------------------------ heap

func (x *Exec) comp(st *State, name, sortName string) Val {
	if v, ok := st.heap[name]; ok {
		return v
	}
	if st.epoch != "" && !x.sharedComp(name) {
		c := x.declare("H"+st.epoch+"_"+name, sortName)
		v := Val{T: c, S: sortName}
		st.heap[name] = v
		return v
	}
	c := x.declare("H0_"+name, sortName)
	v := Val{T: c, S: sortName}
	st.heap[name] = v
	return v
}

// sharedComp: the heap component holds a struct field that a confine block declares shared:
// written by the constructor before its go statement only (C20 checks exactly that), so every
// goroutine reads the same value at any time.
func (x *Exec) sharedComp(name string) bool {
	if x.shared == nil {
		x.shared = map[string]bool{}
		for _, c := range x.sp.Confines {
			p := c.Pkg
			if strings.HasPrefix(p, modRoot+"/") {
				p = strings.TrimPrefix(p, modRoot+"/")
			} else if p == modRoot {
				p = "root"
			} else if i := strings.LastIndex(p, "/"); i >= 0 {
				p = p[i+1:]
			}
			id := sane(p) + "_" + sane(c.Type)
			for _, f := range c.Shared {
				x.shared["fld_"+id+"_"+sane(f)] = true
			}
		}
	}
	return x.shared[name]
}

func (x *Exec) setComp(st *State, name string, v Val) {
	// name the new heap value to keep terms small
	c := x.freshConst("H_"+name, v.S)
	st.pc = append(st.pc, app("=", c, v.T))
	st.heap[name] = Val{T: c, S: v.S}
}

func ptrStruct(t types.Type) (*types.Named, *types.Struct) {
	t = types.Unalias(t)
	if p, ok := t.Underlying().(*types.Pointer); ok {
		t = types.Unalias(p.Elem())
	}
	n, _ := t.(*types.Named)
	s, _ := t.Underlying().(*types.Struct)
	return n, s
}

func fieldComp(n *types.Named, field string) string {
	return "fld_" + typeID(n) + "_" + sane(field)
}

// ghostField looks up a ghost field declared for the named type.
func (x *Exec) ghostField(n *types.Named, field string) *GhostDecl {
	if n == nil {
		return nil
	}
	p, k := typeKey(n)
	return x.sp.Ghosts["field:"+p+"."+k+"."+field]
}

// named introduces (once per path) a constant for a compound term, to keep later terms small.
func (x *Exec) named(st *State, hint, term, sortName string) string {
	if len(st.cond) > 0 {
		return term
	}
	if st.names == nil {
		st.names = map[string]string{}
	}
	if c, ok := st.names[term]; ok {
		return c
	}
	c := x.freshConst("v_"+hint, sortName)
	st.pc = append(st.pc, app("=", c, term))
	st.names[term] = c
	st.nameLog = append(st.nameLog, term, c)
	return c
}

// readField reads obj.field where obj is a pointer to a struct.
func (x *Exec) readField(st *State, obj Val, field string) (Val, bool) {
	n, s := ptrStruct(obj.G)
	if s != nil {
		for i := 0; i < s.NumFields(); i++ {
			if f := s.Field(i); f.Name() == field {
				c := x.comp(st, fieldComp(n, field), arrayOf(x.w.sortOf(f.Type())))
				v := Val{T: x.named(st, field, app("select", c.T, obj.T), x.w.sortOf(f.Type())), S: x.w.sortOf(f.Type()), G: f.Type()}
				x.assumeWellTyped(st, v)
				return v, true
			}
		}
	}
	if g := x.ghostField(n, field); g != nil {
		c := x.comp(st, "g"+fieldComp(n, field), arrayOf(g.Sort))
		return Val{T: app("select", c.T, obj.T), S: g.Sort}, true
	}
	return Val{}, false
}

func (x *Exec) writeField(st *State, obj Val, field string, v Val) bool {
	n, s := ptrStruct(obj.G)
	if s != nil {
		for i := 0; i < s.NumFields(); i++ {
			if f := s.Field(i); f.Name() == field {
				name := fieldComp(n, field)
				c := x.comp(st, name, arrayOf(x.w.sortOf(f.Type())))
				x.setComp(st, name, Val{T: app("store", c.T, obj.T, v.T), S: c.S})
				st.wrote(name, obj.T, "true")
				return true
			}
		}
	}
	if g := x.ghostField(n, field); g != nil {
		name := "g" + fieldComp(n, field)
		c := x.comp(st, name, arrayOf(g.Sort))
		x.setComp(st, name, Val{T: app("store", c.T, obj.T, v.T), S: c.S})
		st.wrote(name, obj.T, "true")
		return true
	}
	return false
}

func (x *Exec) structField(v Val, field string) Val {
	d := x.w.dts[v.S]
	if d == nil {
		return Val{}
	}
	for _, f := range d.Fields {
		if f.Name == field {
			return Val{T: app(d.Name+"_"+sane(field), v.T), S: f.Sort, G: f.G}
		}
	}
	return Val{}
}

func (x *Exec) structWith(v Val, field string, nv Val) Val {
	d := x.w.dts[v.S]
	var a []string
	for _, f := range d.Fields {
		if f.Name == field {
			a = append(a, nv.T)
		} else {
			a = append(a, app(d.Name+"_"+sane(f.Name), v.T))
		}
	}
	return Val{T: app("mk_"+d.Name, a...), S: v.S, G: v.G}
}

func sortTag(s string) string {
	return strings.Trim(sane(s), "_")
}

// mapComps returns the domain and value components of maps with value sort vs.
func (x *Exec) mapComps(st *State, vs string) (dom, val Val) {
	dom = x.comp(st, "mdom_"+sortTag(vs), arrayOf("(Array Int Bool)"))
	val = x.comp(st, "mval_"+sortTag(vs), arrayOf(arrayOf(vs)))
	return
}

func mapValType(t types.Type) types.Type {
	if t == nil {
		return nil
	}
	if m, ok := types.Unalias(t).Underlying().(*types.Map); ok {
		return m.Elem()
	}
	return nil
}

// mapParts returns the current (domain, values) arrays of map m.
func (x *Exec) mapParts(st *State, m Val) (d, v string, vs string, vt types.Type) {
	vt = mapValType(m.G)
	vs = "Int"
	if vt != nil {
		vs = x.w.sortOf(vt)
	} else if m.E != "" {
		vs = m.E
	}
	dom, val := x.mapComps(st, vs)
	return app("select", dom.T, m.T), app("select", val.T, m.T), vs, vt
}

// nilMapFacts: a nil map has no entries.
func (x *Exec) nilMapFacts(st *State, m Val, d, v, vs string, key string) {
	f := []string{}
	if key != "" {
		f = append(f, not(app("select", d, key)))
	}
	if vs == "Int" {
		f = append(f, app("=", app("msum", d, v), "0"))
	}
	if len(f) > 0 {
		st.assume(implies(app("=", m.T, "0"), and(f...)))
	}
}

func (x *Exec) mapRead(st *State, m Val, k string) (Val, string) {
	d, v, vs, vt := x.mapParts(st, m)
	x.nilMapFacts(st, m, d, v, vs, k)
	present := app("select", d, k)
	r := Val{T: app("ite", present, app("select", v, k), x.w.zero(vs)), S: vs, G: vt}
	raw := Val{T: app("select", v, k), S: vs, G: vt}
	if vt != nil {
		// stored values are well typed
		if _, _, ok := intRange(vt); ok {
			st.assume(implies(present, inRange(raw.T, vt)))
			if vs == "Int" {
				st.assume(and(app(">=", app("msum", d, v), "0"), implies(present, app(">=", app("msum", d, v), raw.T))))
			}
		}
	}
	return r, present
}

func (x *Exec) mapWrite(st *State, m Val, k string, nv Val) {
	d, v, vs, _ := x.mapParts(st, m)
	dom, val := x.mapComps(st, vs)
	nd := app("store", d, k, "true")
	nvv := app("store", v, k, nv.T)
	if vs == "Int" {
		// ground instance of the sum update lemma L_upd
		oldc := app("ite", app("select", d, k), app("nn", app("select", v, k)), "0")
		st.assume(app("=", app("msum", nd, nvv), app("+", app("-", app("msum", d, v), oldc), app("nn", nv.T))))
		st.assume(and(app(">=", app("msum", d, v), oldc), app(">=", app("msum", nd, nvv), "0")))
	}
	x.setComp(st, "mdom_"+sortTag(vs), Val{T: app("store", dom.T, m.T, nd), S: dom.S})
	x.setComp(st, "mval_"+sortTag(vs), Val{T: app("store", val.T, m.T, nvv), S: val.S})
	st.wrote("mdom_"+sortTag(vs), m.T, "true")
	st.wrote("mval_"+sortTag(vs), m.T, "true")
	st.wroteThrough("mdom_"+sortTag(vs), m)
	st.wroteThrough("mval_"+sortTag(vs), m)
}

func (x *Exec) mapDelete(st *State, m Val, k string) {
	d, v, vs, _ := x.mapParts(st, m)
	dom, _ := x.mapComps(st, vs)
	nd := app("store", d, k, "false")
	if vs == "Int" {
		oldc := app("ite", app("select", d, k), app("nn", app("select", v, k)), "0")
		st.assume(app("=", app("msum", nd, v), app("-", app("msum", d, v), oldc)))
		st.assume(app(">=", app("msum", d, v), oldc))
	}
	x.setComp(st, "mdom_"+sortTag(vs), Val{T: app("store", dom.T, m.T, nd), S: dom.S})
	st.wrote("mdom_"+sortTag(vs), m.T, "true")
	st.wroteThrough("mdom_"+sortTag(vs), m)
}

func (x *Exec) elemSort(s Val) (string, types.Type) {
	if s.G != nil {
		if sl, ok := types.Unalias(s.G).Underlying().(*types.Slice); ok {
			return x.w.sortOf(sl.Elem()), sl.Elem()
		}
	}
	if s.E != "" {
		return s.E, nil
	}
	return "Int", nil
}

func (x *Exec) arrComp(st *State, es string) Val {
	return x.comp(st, "arr_"+sortTag(es), arrayOf(arrayOf(es)))
}

// sliceAt returns s[i] (no bounds obligation).
func (x *Exec) sliceAt(st *State, s Val, i string) Val {
	es, et := x.elemSort(s)
	a := x.arrComp(st, es)
	v := Val{T: app("select", app("select", a.T, app("sl_arr", s.T)), app("at", app("sl_off", s.T), i)), S: es, G: et}
	return v
}

func (x *Exec) newRef(st *State) string {
	r := x.freshConst("ref", "Int")
	st.pc = append(st.pc, app("=", r, st.nextref))
	n := x.freshConst("nextref", "Int")
	st.pc = append(st.pc, app("=", n, app("+", st.nextref, "1")))
	st.nextref = n
	return r
}

// ------------------------------------------------------------------ obligations

func (x *Exec) ordinal(n ast.Node) int { return x.ords[n] }

// oblige records a proof obligation: goal must hold on the current path.
func (x *Exec) oblige(st *State, kind, name string, tags []string, goal string) {
	if goal == "true" || x.mute {
		return
	}
	q := &Query{Ob: x.fn.name() + "#" + name, Kind: kind, Func: x.fn.name(), Tags: tags, Goal: implies(st.guard(), goal), Expect: "unsat", Params: x.params, Observe: x.observe}
	q.PC = st.pc[:len(st.pc):len(st.pc)]
	q.Trail = st.trail[:len(st.trail):len(st.trail)]
	q.Weak = st.weak
	q.BrokenPath = st.brokenInv
	x.qs = append(x.qs, q)
	// afterwards the fact may be used - except for postconditions, which are checked
	// independently of each other (a failing one must not mask the next)
	if kind != "ensures" && kind != "frame" {
		st.assume(goal)
	}
}

// tryClause evaluates a contract clause; a clause that cannot be evaluated on this tree (it
// names a parameter or local that is gone) yields no terms and the error message.
func (x *Exec) tryClause(env *SEnv, c *Clause) ([]part, string) {
	n0 := len(x.errs)
	ps := env.evalClause(c)
	if len(x.errs) > n0 {
		msg := x.errs[n0]
		x.errs = x.errs[:n0]
		return nil, msg
	}
	return ps, ""
}

// broken records an obligation that can never be discharged: its clause cannot be evaluated.
func (x *Exec) broken(st *State, kind, name string, tags []string, msg string) {
	q := &Query{Ob: x.fn.name() + "#" + name, Kind: kind, Func: x.fn.name(), Tags: tags, Goal: "false", Expect: "unsat", Params: x.params, Broken: msg}
	q.Trail = st.trail[:len(st.trail):len(st.trail)]
	x.qs = append(x.qs, q)
}

func (x *Exec) safety(st *State, n ast.Node, what, goal string) {
	name := fmt.Sprintf("safe[%d]:%s", x.ordinal(n), what)
	if x.spec != nil && (x.spec.Assumed[fmt.Sprintf("%s[%d]", what, x.ordinal(n))] || x.spec.Assumed[what+"[*]"]) {
		st.assume(goal)
		return
	}
	x.oblige(st, "safety", name, []string{"*"}, goal)
}

// ------------------------------------------------------------------ expressions

func (x *Exec) constVal(e ast.Expr) (Val, bool) {
	tv, ok := x.info().Types[e]
	if !ok || tv.Value == nil {
		return Val{}, false
	}
	t := tv.Type
	switch tv.Value.Kind() {
	case constant.Bool:
		return Val{T: fmt.Sprint(constant.BoolVal(tv.Value)), S: "Bool", G: t}, true
	case constant.Int:
		if b, ok := t.Underlying().(*types.Basic); ok && b.Info()&types.IsFloat != 0 {
			return x.floatConst(tv.Value.ExactString(), t), true
		}
		return Val{T: intLit(tv.Value.ExactString()), S: "Int", G: t}, true
	case constant.Float:
		if b, ok := t.Underlying().(*types.Basic); ok && b.Info()&types.IsInteger != 0 {
			if i := constant.ToInt(tv.Value); i.Kind() == constant.Int {
				return Val{T: intLit(i.ExactString()), S: "Int", G: t}, true
			}
		}
		return x.floatConst(tv.Value.ExactString(), t), true
	case constant.String:
		return Val{T: "0", S: "Int", G: t}, true
	}
	return Val{}, false
}

func (x *Exec) floatConst(s string, t types.Type) Val {
	name := "fc_" + sane(s)
	x.w.fconsts[name] = true
	return Val{T: name, S: "F", G: t}
}

func (x *Exec) errConst(o types.Object) Val {
	key := o.Pkg().Path() + "." + o.Name()
	id, ok := x.w.errIDs[key]
	if !ok {
		id = len(x.w.errIDs) + 1
		x.w.errIDs[key] = id
	}
	return Val{T: fmt.Sprintf("(- %d)", id), S: "Int", G: o.Type()}
}

func (x *Exec) funcRef(key string, t types.Type) Val {
	id, ok := x.w.fnrefs[key]
	if !ok {
		id = len(x.w.fnrefs) + 1
		x.w.fnrefs[key] = id
	}
	return Val{T: fmt.Sprintf("(- %d)", 1000000+id), S: "Int", G: t}
}

func (x *Exec) eval(st *State, e ast.Expr) Val {
	vs := x.evalMulti(st, e)
	if len(vs) != 1 {
		x.unsupported(e, fmt.Sprintf("expression yields %d values", len(vs)))
		return Val{T: "0", S: "Int"}
	}
	return vs[0]
}

func (x *Exec) evalMulti(st *State, e ast.Expr) []Val {
	if c, ok := x.constVal(e); ok {
		return []Val{c}
	}
	switch e := e.(type) {
	case *ast.ParenExpr:
		return x.evalMulti(st, e.X)
	case *ast.Ident:
		return []Val{x.evalIdent(st, e)}
	case *ast.SelectorExpr:
		return []Val{x.withOrigin(st, e, x.evalSelector(st, e))}
	case *ast.IndexExpr:
		return []Val{x.withOrigin(st, e, x.evalIndex(st, e, false)[0])}
	case *ast.SliceExpr:
		return []Val{x.evalSliceExpr(st, e)}
	case *ast.CallExpr:
		vs := x.evalCall(st, e)
		if len(vs) == 1 && x.accessorCall(e) {
			if _, isChan := types.Unalias(x.info().TypeOf(e)).Underlying().(*types.Chan); isChan {
				vs[0] = x.withOrigin(st, e, vs[0]) // a channel handed out by an accessor may be cached in a local
			}
		}
		return vs
	case *ast.UnaryExpr:
		return []Val{x.evalUnary(st, e)}
	case *ast.BinaryExpr:
		return []Val{x.evalBinary(st, e)}
	case *ast.CompositeLit:
		return []Val{x.evalComposite(st, e, false)}
	case *ast.StarExpr:
		x.unsupported(e, "pointer dereference")
	case *ast.FuncLit:
		x.unsupported(e, "closure")
	case *ast.TypeAssertExpr:
		x.unsupported(e, "type assertion")
	default:
		x.unsupported(e, fmt.Sprintf("expression %T", e))
	}
	return []Val{{T: "0", S: "Int"}}
}

func (x *Exec) evalIdent(st *State, id *ast.Ident) Val {
	o := x.info().Uses[id]
	if o == nil {
		o = x.info().Defs[id]
	}
	t := x.info().TypeOf(id)
	switch o := o.(type) {
	case *types.Nil:
		return Val{T: x.w.zero(x.w.sortOf(t)), S: x.w.sortOf(t), G: t}
	case *types.Var:
		if v, ok := st.vars[o]; ok {
			return v
		}
		if o.Parent() == o.Pkg().Scope() { // package-level variable
			if isErrorType(o.Type()) {
				return x.errConst(o)
			}
			x.unsupported(id, "package-level variable "+o.Name())
			return Val{T: "0", S: "Int", G: t}
		}
		x.unsupported(id, "unbound variable "+o.Name())
	case *types.Func:
		return x.funcRef(funcKeyOf(o), t)
	case *types.Const:
		if c, ok := x.constVal(id); ok {
			return c
		}
	}
	x.unsupported(id, "identifier "+id.Name)
	return Val{T: "0", S: "Int", G: t}
}

func isErrorType(t types.Type) bool {
	return types.Identical(t, types.Universe.Lookup("error").Type())
}

// withOrigin remembers that v was read from the field / map entry / element expression e: a
// copy of it in a local or a parameter can then still be recognised by the event hooks
// (dsc.inputs[p].Channel cached in a local is the input channel of p - provided it still is, which
// is an obligation where the hook is applied). A field of a remembered struct value extends the
// remembered expression.
func (x *Exec) withOrigin(st *State, e ast.Expr, v Val) Val {
	if sel, ok := e.(*ast.SelectorExpr); ok {
		if _, isSel := x.info().Selections[sel]; isSel {
			// base is itself a remembered value (a struct copied out of a map entry)?
			if id, ok := ast.Unparen(sel.X).(*ast.Ident); ok {
				if o, ok := x.info().Uses[id].(*types.Var); ok {
					if bv, ok := st.vars[o]; ok && bv.Org != nil {
						v.Org = &origin{expr: &ast.SelectorExpr{X: bv.Org.expr, Sel: sel.Sel}, env: bv.Org.env}
						return v
					}
				}
			}
		}
	}
	env := map[types.Object]Val{}
	pure := true
	ast.Inspect(e, func(n ast.Node) bool {
		switch t := n.(type) {
		case *ast.Ident:
			if o, ok := x.info().Uses[t].(*types.Var); ok {
				if cur, ok := st.vars[o]; ok {
					cur.Org = nil
					env[o] = cur
				}
			}
		case *ast.CallExpr:
			// an accessor under contract that changes nothing (Output(), Err()): what it returns
			// is determined by the state, the call may be part of a remembered expression
			if !x.accessorCall(t) {
				pure = false
			}
		case *ast.FuncLit:
			pure = false
		}
		return true
	})
	if pure {
		v.Org = &origin{expr: e, env: env}
	}
	return v
}

// accessorCall: a call of a function under contract without modifies clause, not blocking.
func (x *Exec) accessorCall(call *ast.CallExpr) bool {
	fn := x.staticCallee(call)
	if fn == nil {
		return false
	}
	sp := x.sp.Funcs[funcKeyOf(fn)]
	if sp == nil || sp.Blocking || sp.Trusted {
		return false
	}
	for _, c := range sp.Clauses {
		if c.Kind == "modifies" || c.Kind == "effect" || c.Kind == "effect-after" {
			return false
		}
	}
	return true
}

func (x *Exec) evalSelector(st *State, e *ast.SelectorExpr) Val {
	t := x.info().TypeOf(e)
	if sel, ok := x.info().Selections[e]; ok {
		if sel.Kind() != types.FieldVal {
			x.unsupported(e, "method value")
			return Val{T: "0", S: "Int", G: t}
		}
		if len(sel.Index()) != 1 {
			x.unsupported(e, "embedded field")
		}
		base := x.eval(st, e.X)
		if _, isPtr := types.Unalias(base.G).Underlying().(*types.Pointer); isPtr {
			x.safety(st, e, "nil-deref", not(app("=", base.T, "0")))
			v, ok := x.readField(st, base, e.Sel.Name)
			if !ok {
				x.unsupported(e, "field "+e.Sel.Name)
			}
			v.G = t
			return v
		}
		v := x.structField(base, e.Sel.Name)
		if v.S == "" {
			// e.g. ticker.C handled structurally by event matching; any other use is unsupported
			x.unsupported(e, "field "+e.Sel.Name+" of "+base.S)
			return Val{T: "0", S: "Int", G: t}
		}
		v.G = t
		x.assumeWellTyped(st, v)
		return v
	}
	// package-qualified identifier
	o := x.info().Uses[e.Sel]
	switch o := o.(type) {
	case *types.Var:
		if isErrorType(o.Type()) {
			return x.errConst(o)
		}
	case *types.Func:
		return x.funcRef(funcKeyOf(o), t)
	}
	x.unsupported(e, "selector "+types.ExprString(e))
	return Val{T: "0", S: "Int", G: t}
}

// evalIndex returns [value] or [value, ok] for the comma-ok map form.
func (x *Exec) evalIndex(st *State, e *ast.IndexExpr, commaOK bool) []Val {
	bt := x.info().TypeOf(e.X)
	t := x.info().TypeOf(e)
	if tup, ok := t.(*types.Tuple); ok {
		t = tup.At(0).Type()
	}
	switch types.Unalias(bt).Underlying().(type) {
	case *types.Map:
		m := x.eval(st, e.X)
		k := x.eval(st, e.Index)
		v, present := x.mapRead(st, m, k.T)
		v.G = t
		// name the value: it is used often
		c := x.freshConst("mv", v.S)
		st.assume(app("=", c, v.T))
		v.T = c
		return []Val{v, {T: present, S: "Bool", G: types.Typ[types.Bool]}}
	case *types.Slice:
		s := x.eval(st, e.X)
		i := x.eval(st, e.Index)
		x.safety(st, e, "index", and(app("<=", "0", i.T), app("<", i.T, app("sl_len", s.T))))
		v := x.sliceAt(st, s, i.T)
		v.G = t
		x.assumeWellTyped(st, v)
		return []Val{v}
	}
	x.unsupported(e, "index of "+bt.String())
	return []Val{{T: "0", S: "Int", G: t}}
}

func (x *Exec) evalSliceExpr(st *State, e *ast.SliceExpr) Val {
	s := x.eval(st, e.X)
	if _, ok := types.Unalias(s.G).Underlying().(*types.Slice); !ok {
		x.unsupported(e, "slice expression on a non-slice")
		return s
	}
	lo, hi, mx := "0", app("sl_len", s.T), app("sl_cap", s.T)
	if e.Low != nil {
		lo = x.eval(st, e.Low).T
	}
	if e.High != nil {
		hi = x.eval(st, e.High).T
	}
	if e.Slice3 && e.Max != nil {
		mx = x.eval(st, e.Max).T
	}
	x.safety(st, e, "slice-bounds", and(app("<=", "0", lo), app("<=", lo, hi), app("<=", hi, mx), app("<=", mx, app("sl_cap", s.T))))
	return Val{T: app("mk_Slice", app("sl_arr", s.T), app("+", app("sl_off", s.T), lo), app("-", hi, lo), app("-", mx, lo)), S: "Slice", G: x.info().TypeOf(e)}
}

func (x *Exec) evalUnary(st *State, e *ast.UnaryExpr) Val {
	t := x.info().TypeOf(e)
	switch e.Op {
	case token.NOT:
		v := x.eval(st, e.X)
		return Val{T: not(v.T), S: "Bool", G: t}
	case token.SUB:
		v := x.eval(st, e.X)
		if v.S == "F" {
			x.unsupported(e, "float negation")
		}
		r := Val{T: app("-", v.T), S: "Int", G: t}
		x.safety(st, e, "neg-overflow", inRange(r.T, t))
		return r
	case token.ADD:
		return x.eval(st, e.X)
	case token.ARROW:
		v, _ := x.recvEvent(st, e.X, e)
		return v
	case token.AND:
		if cl, ok := e.X.(*ast.CompositeLit); ok {
			return x.evalComposite(st, cl, true)
		}
	}
	x.unsupported(e, "unary "+e.Op.String())
	return Val{T: "0", S: "Int", G: t}
}

func (x *Exec) wraps(n ast.Node, kind string) bool {
	return x.spec != nil && x.spec.Wraps[fmt.Sprintf("%s[%d]", kind, x.ordinal(n))]
}

func (x *Exec) arith(st *State, n ast.Node, op token.Token, a, b Val, t types.Type) Val {
	if a.S == "F" || b.S == "F" {
		f := map[token.Token]string{token.QUO: "fdiv", token.MUL: "fmul", token.SUB: "fsub"}[op]
		if f == "" {
			x.unsupported(n, "float operator "+op.String())
			return Val{T: "f_zero", S: "F", G: t}
		}
		return Val{T: app(f, a.T, b.T), S: "F", G: t}
	}
	var term, what string
	switch op {
	case token.ADD:
		term, what = app("+", a.T, b.T), "add"
	case token.SUB:
		term, what = app("-", a.T, b.T), "sub"
	case token.MUL:
		term, what = app("*", a.T, b.T), "mul"
	case token.QUO, token.REM:
		x.safety(st, n, "div-by-zero", not(app("=", b.T, "0")))
		f := "div"
		if op == token.REM {
			f = "mod"
		}
		if !isUnsigned(t) {
			f = "t" + f
		}
		return Val{T: app(f, a.T, b.T), S: "Int", G: t}
	case token.SHL, token.SHR, token.AND, token.OR, token.XOR, token.AND_NOT:
		// bit operations are uninterpreted (total) functions on integers: nothing but the
		// range of the result type is known about them
		f := map[token.Token]string{token.SHL: "bshl", token.SHR: "bshr", token.AND: "band", token.OR: "bor", token.XOR: "bxor", token.AND_NOT: "bandnot"}[op]
		r := Val{T: app(f, a.T, b.T), S: "Int", G: t}
		st.assume(inRange(r.T, t))
		return r
	default:
		x.unsupported(n, "operator "+op.String())
		return Val{T: "0", S: "Int", G: t}
	}
	lo, hi, ok := intRange(t)
	if ok && x.wraps(n, what) && lo == "0" {
		return Val{T: app("mod", term, hi), S: "Int", G: t}
	}
	if ok {
		x.safety(st, n, what+"-overflow", inRange(term, t))
	}
	return Val{T: term, S: "Int", G: t}
}

func (x *Exec) evalBinary(st *State, e *ast.BinaryExpr) Val {
	t := x.info().TypeOf(e)
	switch e.Op {
	case token.LAND, token.LOR:
		a := x.eval(st, e.X)
		g := a.T
		if e.Op == token.LOR {
			g = not(a.T)
		}
		st.cond = append(st.cond, g)
		b := x.eval(st, e.Y)
		st.cond = st.cond[:len(st.cond)-1]
		if e.Op == token.LAND {
			return Val{T: and(a.T, b.T), S: "Bool", G: t}
		}
		return Val{T: or(a.T, b.T), S: "Bool", G: t}
	}
	a := x.eval(st, e.X)
	b := x.eval(st, e.Y)
	switch e.Op {
	case token.EQL, token.NEQ:
		var eq string
		if a.S == "Slice" { // comparison with nil
			other := b
			if isNilExpr(x.info(), e.X) {
				other = a
				a = b
			}
			_ = other
			eq = app("=", app("sl_arr", a.T), "0")
		} else {
			eq = app("=", a.T, b.T)
		}
		if e.Op == token.NEQ {
			eq = not(eq)
		}
		return Val{T: eq, S: "Bool", G: t}
	case token.LSS, token.LEQ, token.GTR, token.GEQ:
		if a.S == "F" {
			var r string
			switch e.Op {
			case token.LSS:
				r = app("flt", a.T, b.T)
			case token.LEQ:
				r = app("fle", a.T, b.T)
			case token.GTR:
				r = app("flt", b.T, a.T)
			case token.GEQ:
				r = app("fle", b.T, a.T)
			}
			return Val{T: r, S: "Bool", G: t}
		}
		return Val{T: app(e.Op.String(), a.T, b.T), S: "Bool", G: t}
	}
	return x.arith(st, e, e.Op, a, b, t)
}

func isNilExpr(info *types.Info, e ast.Expr) bool {
	if id, ok := ast.Unparen(e).(*ast.Ident); ok {
		_, isNil := info.Uses[id].(*types.Nil)
		return isNil
	}
	return false
}

func (x *Exec) evalComposite(st *State, e *ast.CompositeLit, addr bool) Val {
	t := x.info().TypeOf(e)
	n, s := ptrStruct(t)
	if s == nil {
		x.unsupported(e, "composite literal of "+t.String())
		return Val{T: "0", S: "Int", G: t}
	}
	vals := map[string]Val{}
	for i, el := range e.Elts {
		if kv, ok := el.(*ast.KeyValueExpr); ok {
			vals[kv.Key.(*ast.Ident).Name] = x.eval(st, kv.Value)
		} else {
			vals[s.Field(i).Name()] = x.eval(st, el)
		}
	}
	if addr {
		r := x.newRef(st)
		obj := Val{T: r, S: "Int", G: types.NewPointer(t)}
		if n == nil {
			x.unsupported(e, "pointer to anonymous struct")
			return obj
		}
		for i := 0; i < s.NumFields(); i++ {
			f := s.Field(i)
			v, ok := vals[f.Name()]
			if !ok {
				v = Val{T: x.w.zero(x.w.sortOf(f.Type())), S: x.w.sortOf(f.Type())}
			}
			x.writeField(st, obj, f.Name(), v)
		}
		return obj
	}
	if s.NumFields() == 0 {
		return Val{T: "0", S: "Int", G: t}
	}
	srt := x.w.sortOf(t)
	d := x.w.dts[srt]
	var a []string
	for _, f := range d.Fields {
		if v, ok := vals[f.Name]; ok {
			a = append(a, v.T)
		} else {
			a = append(a, x.w.zero(f.Sort))
		}
	}
	return Val{T: app("mk_"+d.Name, a...), S: srt, G: t}
}

// convert models T(v).
func (x *Exec) convert(st *State, n ast.Node, v Val, to types.Type) Val {
	ts := x.w.sortOf(to)
	switch {
	case v.S == "Int" && ts == "Int":
		if _, _, ok := intRange(to); ok {
			if x.wraps(n, "conv") {
				lo, hi, _ := intRange(to)
				if lo == "0" {
					return Val{T: app("mod", v.T, hi), S: "Int", G: to}
				}
			}
			x.safety(st, n, "conv-range", inRange(v.T, to))
		}
		return Val{T: v.T, S: "Int", G: to}
	case v.S == "Int" && ts == "F":
		return Val{T: app("u2f", v.T), S: "F", G: to}
	case v.S == "F" && ts == "Int":
		r := Val{T: app("f2u", v.T), S: "Int", G: to}
		st.assume(inRange(r.T, to))
		return r
	case v.S == ts:
		return Val{T: v.T, S: ts, G: to}
	}
	x.unsupported(n, fmt.Sprintf("conversion %s -> %s", v.S, ts))
	return Val{T: x.w.zero(ts), S: ts, G: to}
}

// assignTo stores v into the location denoted by lhs.
func (x *Exec) assignTo(st *State, lhs ast.Expr, v Val) {
	switch l := ast.Unparen(lhs).(type) {
	case *ast.Ident:
		if l.Name == "_" {
			return
		}
		o := x.info().Defs[l]
		if o == nil {
			o = x.info().Uses[l]
		}
		if _, ok := o.(*types.Var); !ok {
			x.unsupported(lhs, "assignment target")
			return
		}
		v.G = o.Type()
		if v.S != x.w.sortOf(o.Type()) {
			x.unsupported(lhs, fmt.Sprintf("sort mismatch in assignment: %s vs %s", v.S, x.w.sortOf(o.Type())))
		}
		c := x.freshConst(l.Name, v.S)
		st.assume(app("=", c, v.T))
		v.T = c
		st.vars[o] = v
	case *ast.SelectorExpr:
		sel, ok := x.info().Selections[l]
		if !ok || sel.Kind() != types.FieldVal {
			x.unsupported(lhs, "assignment target")
			return
		}
		bt := x.info().TypeOf(l.X)
		if _, isPtr := types.Unalias(bt).Underlying().(*types.Pointer); isPtr {
			base := x.eval(st, l.X)
			x.safety(st, l, "nil-deref", not(app("=", base.T, "0")))
			if !x.writeField(st, base, l.Sel.Name, v) {
				x.unsupported(lhs, "field write")
			}
			return
		}
		// field of a struct value: rebuild the struct and assign it to the base
		base := x.eval(st, l.X)
		x.assignTo(st, l.X, x.structWith(base, l.Sel.Name, v))
	case *ast.IndexExpr:
		bt := x.info().TypeOf(l.X)
		switch types.Unalias(bt).Underlying().(type) {
		case *types.Map:
			m := x.eval(st, l.X)
			k := x.eval(st, l.Index)
			x.safety(st, l, "nil-map-write", not(app("=", m.T, "0")))
			x.mapWrite(st, m, k.T, v)
		case *types.Slice:
			s := x.eval(st, l.X)
			i := x.eval(st, l.Index)
			x.safety(st, l, "index", and(app("<=", "0", i.T), app("<", i.T, app("sl_len", s.T))))
			x.sliceWrite(st, l, s, i.T, v)
		default:
			x.unsupported(lhs, "indexed assignment")
		}
	default:
		x.unsupported(lhs, fmt.Sprintf("assignment target %T", lhs))
	}
}

// sliceWrite writes s[i] = v (a heap write into the backing array, subject to the
// ownership hook "heapwrite").
func (x *Exec) sliceWrite(st *State, n ast.Node, s Val, i string, v Val) {
	es, _ := x.elemSort(s)
	a := x.arrComp(st, es)
	ref := app("sl_arr", s.T)
	x.heapWriteHook(st, n, ref)
	inner := app("store", app("select", a.T, ref), app("at", app("sl_off", s.T), i), v.T)
	x.setComp(st, "arr_"+sortTag(es), Val{T: app("store", a.T, ref, inner), S: a.S})
	st.wrote("arr_"+sortTag(es), ref, "true")
}
