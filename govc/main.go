package main

import (
	"crypto/sha256"
	"encoding/hex"
	"regexp"
	"go/ast"
	"go/token"
	"go/types"
	"encoding/json"
	"flag"
	"fmt"
	"os"
	"path/filepath"
	"sort"
	"strconv"
	"strings"
	"time"
)

type Obligation struct {
	Name    string
	Kind    string
	Func    string
	Tags    []string
	Queries []*job
	Status  string // discharged failed-sat failed-unknown vacuous
	Solver  map[string]int
	Seconds float64
}

// Axioms about restricted map sums, added only to queries that use prefix sets (C05/C06).
const msumRAxioms = `(assert (forall ((d (Array Int Bool)) (v (Array Int Int)) (s (Array Int Bool)) (k Int)) (! (= (msumR d v (store s k true)) (+ (msumR d v s) (ite (and (select d k) (not (select s k))) (nn (select v k)) 0))) :pattern ((msumR d v (store s k true))))))
(assert (forall ((d (Array Int Bool)) (v (Array Int Int))) (! (= (msumR d v ((as const (Array Int Bool)) false)) 0) :pattern ((msumR d v ((as const (Array Int Bool)) false))))))
(assert (forall ((d (Array Int Bool)) (v (Array Int Int)) (s (Array Int Bool))) (! (and (>= (msumR d v s) 0) (<= (msumR d v s) (msum d v)) (=> (forall ((k Int)) (=> (select d k) (select s k))) (= (msumR d v s) (msum d v)))) :pattern ((msumR d v s)))))
`

func hasTag(tags []string, t string) bool {
	for _, x := range tags {
		if x == t {
			return true
		}
	}
	return false
}

type Options struct {
	repo, verif, prop, tier string
	seed                    int
	timeout                 int
	only                    string
	dump                    bool
	verbose                 bool
	writeBaseline           bool
}

func main() {
	if len(os.Args) < 2 {
		fmt.Fprintln(os.Stderr, "usage: govc check|replay ...")
		os.Exit(2)
	}
	switch os.Args[1] {
	case "check":
		os.Exit(cmdCheck(os.Args[2:]))
	case "confine":
		os.Exit(cmdConfine(os.Args[2:]))
	default:
		fmt.Fprintln(os.Stderr, "unknown command", os.Args[1])
		os.Exit(2)
	}
}

func pkgOfContractFile(repo, path string) string {
	rel, _ := filepath.Rel(repo, filepath.Dir(path))
	if rel == "." {
		return modRoot
	}
	return modRoot + "/" + filepath.ToSlash(rel)
}

func loadSpecs(o *Options) (*Specs, error) {
	sp := newSpecs()
	ext := filepath.Join(o.verif, "specs", "externals.spec")
	if err := sp.parseSpecFile(ext, ""); err != nil {
		return nil, err
	}
	files, err := contractFiles(o.repo)
	if err != nil {
		return nil, err
	}
	v2, err := contractFiles(filepath.Join(o.repo, "v2"))
	if err != nil {
		return nil, err
	}
	files = append(files, v2...)
	for _, f := range files {
		if err := sp.parseSpecFile(f, pkgOfContractFile(o.repo, f)); err != nil {
			return nil, err
		}
	}
	return sp, nil
}

var theSpecs *Specs

func predOf(pkg, name string) *PredSpec {
	if theSpecs == nil {
		return nil
	}
	if p := theSpecs.Preds[pkg+"."+name]; p != nil {
		return p
	}
	return theSpecs.Preds["."+name]
}

// clauseTaggedIn: some clause carries the tag; a clause that applies a predicate of package
// pkg carries the tags of the predicate's clauses (two levels).
func clauseTaggedIn(pkg string, cs []*Clause, prop string, depth int) bool {
	for _, c := range cs {
		if hasTag(c.Tags, prop) {
			return true
		}
		if c.Expr != nil && c.Expr.Op == "call" && depth < 3 {
			if p := predOf(pkg, c.Expr.Name); p != nil && clauseTaggedIn(pkg, p.Clauses, prop, depth+1) {
				return true
			}
		}
	}
	return false
}

func clauseTagged(cs []*Clause, prop string) bool {
	for _, c := range cs {
		if hasTag(c.Tags, prop) {
			return true
		}
	}
	return false
}

// relevantPackages lists the packages with at least one clause tagged prop.
func relevantPackages(sp *Specs, prop string) map[string]bool {
	out := map[string]bool{}
	for _, f := range sp.Funcs {
		if f.External {
			continue
		}
		if clauseTaggedIn(f.Pkg, f.Clauses, prop, 0) {
			out[f.Pkg] = true
		}
		for _, l := range f.Loops {
			if clauseTaggedIn(f.Pkg, l.Clauses, prop, 0) {
				out[f.Pkg] = true
			}
		}
	}
	for _, e := range sp.Events {
		if clauseTagged(e.Clauses, prop) {
			out[e.Pkg] = true
		}
	}
	for _, p := range sp.Preds {
		if p.Pkg != "" && clauseTagged(p.Clauses, prop) {
			out[p.Pkg] = true
		}
	}
	// support packages: every contract in them is untagged (*), they belong to no property in
	// particular (internal/general). Their contracts are used by the callers in the slice, so
	// they are proved along with every property of their module; a failure there is a failed
	// prerequisite (UNDECIDED), never a violation.
	starOnly := map[string]bool{}
	for _, f := range sp.Funcs {
		if f.External {
			continue
		}
		if _, seen := starOnly[f.Pkg]; !seen {
			starOnly[f.Pkg] = true
		}
		tagged := false
		mark := func(cs []*Clause) {
			for _, c := range cs {
				for _, t := range c.Tags {
					if t != "*" {
						tagged = true
					}
				}
			}
		}
		mark(f.Clauses)
		for _, l := range f.Loops {
			mark(l.Clauses)
		}
		if tagged {
			starOnly[f.Pkg] = false
		}
	}
	isV2 := func(p string) bool { return strings.HasPrefix(p, modRoot+"/v2") }
	for p, only := range starOnly {
		if !only || out[p] {
			continue
		}
		for q := range out {
			if _, inRepo := starOnly[q]; inRepo && isV2(p) == isV2(q) {
				out[p] = true
				break
			}
		}
	}
	return out
}

// funcInSlice: a function is verified in the run of property prop if one of its clauses
// is tagged prop, or if all of its clauses are untagged / tagged * only.
func funcInSlice(f *FuncSpec, prop string) bool {
	if clauseTaggedIn(f.Pkg, f.Clauses, prop, 0) {
		return true
	}
	onlyStar := true
	check := func(cs []*Clause) {
		for _, c := range cs {
			for _, t := range c.Tags {
				if t != "*" {
					onlyStar = false
				}
			}
		}
	}
	check(f.Clauses)
	for _, l := range f.Loops {
		if clauseTaggedIn(f.Pkg, l.Clauses, prop, 0) {
			return true
		}
		check(l.Clauses)
	}
	return onlyStar
}

func funcHasTag(f *FuncSpec, prop string) bool {
	if clauseTaggedIn(f.Pkg, f.Clauses, prop, 0) {
		return true
	}
	for _, l := range f.Loops {
		if clauseTaggedIn(f.Pkg, l.Clauses, prop, 0) {
			return true
		}
	}
	return false
}

// usesTagged: the function calls a function with a prop-tagged precondition, or performs a
// channel / clock operation whose event hook has a prop-tagged clause.
func usesTagged(w *World, sp *Specs, prog *Program, fi *FuncInfo, spec *FuncSpec, prop string) bool {
	if fi.decl.Body == nil {
		return false
	}
	x := &Exec{w: w, sp: sp, prog: prog, fn: fi, spec: spec, prop: prop, decls: map[string]string{}}
	info := fi.pkg.TypesInfo
	found := false
	evTagged := func(ev *EventSpec) {
		if ev != nil && clauseTagged(ev.Clauses, prop) {
			found = true
		}
	}
	hw, _ := x.findEvent("heapwrite", nil)
	ast.Inspect(fi.decl.Body, func(n ast.Node) bool {
		if found {
			return false
		}
		switch s := n.(type) {
		case *ast.SendStmt:
			ev, _ := x.findEvent("send", s.Chan)
			evTagged(ev)
		case *ast.UnaryExpr:
			if s.Op == token.ARROW {
				ev, _ := x.findEvent("recv", s.X)
				evTagged(ev)
			}
		case *ast.RangeStmt:
			if chanElem(info.TypeOf(s.X)) != nil {
				ev, _ := x.findEvent("recv", s.X)
				evTagged(ev)
			}
		case *ast.IndexExpr:
			// element writes are found through their assignment statements below
		case *ast.AssignStmt:
			for _, l := range s.Lhs {
				if ix, ok := ast.Unparen(l).(*ast.IndexExpr); ok {
					if _, isSl := types.Unalias(info.TypeOf(ix.X)).Underlying().(*types.Slice); isSl {
						evTagged(hw)
					}
				}
			}
		case *ast.CallExpr:
			var obj types.Object
			switch f := ast.Unparen(s.Fun).(type) {
			case *ast.Ident:
				obj = info.Uses[f]
			case *ast.SelectorExpr:
				obj = info.Uses[f.Sel]
			}
			switch o := obj.(type) {
			case *types.Builtin:
				switch o.Name() {
				case "close":
					ev, _ := x.findEvent("close", s.Args[0])
					evTagged(ev)
				case "append", "copy":
					evTagged(hw)
				}
			case *types.Func:
				key := funcKeyOf(o)
				evTagged(x.findCallEvent(key))
				if g := sp.Funcs[key]; g != nil {
					for _, c := range g.Clauses {
						if c.Kind == "requires" && hasTag(c.Tags, prop) {
							found = true
						}
					}
				}
			}
		}
		return true
	})
	return found
}

func moduleDir(repo, pkg string) (dir, pattern string) {
	if strings.HasPrefix(pkg, modRoot+"/v2") {
		rel := strings.TrimPrefix(pkg, modRoot+"/v2")
		return filepath.Join(repo, "v2"), "." + rel
	}
	rel := strings.TrimPrefix(pkg, modRoot)
	return repo, "." + rel
}

var ordRe = regexp.MustCompile(`\[(\d+)(:|\])`)

// normOb drops the ordinals of calls, loops and safety sites from an obligation name; sites
// inside a function that is executed inline (ordinals from 1000) stay apart from the
// function's own sites.
func normOb(n string) string {
	return ordRe.ReplaceAllStringFunc(n, func(m string) string {
		sm := ordRe.FindStringSubmatch(m)
		if len(sm[1]) >= 4 {
			return "[inl" + sm[2]
		}
		return "[" + sm[2]
	})
}

func cmdCheck(args []string) int {
	fs := flag.NewFlagSet("check", flag.ExitOnError)
	o := &Options{}
	fs.StringVar(&o.repo, "repo", "/repo", "repository root")
	fs.StringVar(&o.verif, "verif", "/verif", "verification root")
	fs.StringVar(&o.prop, "prop", "", "property id")
	fs.StringVar(&o.tier, "tier", "quick", "quick|thorough")
	fs.IntVar(&o.timeout, "timeout", 0, "solver timeout (s)")
	fs.StringVar(&o.only, "only", "", "only functions whose name contains this")
	fs.BoolVar(&o.dump, "dump", false, "keep all query files")
	fs.BoolVar(&o.verbose, "v", false, "verbose")
	fs.BoolVar(&o.writeBaseline, "write-baseline", false, "record the discharged obligations as the baseline")
	fs.Parse(args)
	if s := os.Getenv("VERIF_SEED"); s != "" {
		o.seed, _ = strconv.Atoi(s)
	}
	if o.timeout == 0 {
		o.timeout = 10
		if o.tier == "thorough" {
			o.timeout = 60
		}
	}
	t0 := time.Now()
	code, ev := runCheck(o)
	if o.prop == "C20" {
		// C20 = ownership of the user-visible slices (C20-tagged heap-ownership obligations,
		// decided above like every other property) + confinement of library state (typed AST)
		sp, err := loadSpecs(o)
		if err == nil {
			cc, cev := runConfine(o, sp, &Evidence{PropertyID: o.prop, Tier: o.tier, Seed: o.seed, Level: "proof", Coverage: map[string]interface{}{}})
			if n, ok := cev.Coverage["obligations"].(int); ok {
				if m, ok2 := ev.Coverage["obligations"].(int); ok2 {
					ev.Coverage["obligations"] = n + m
				}
			}
			if n, ok := cev.Coverage["discharged"].(int); ok {
				if m, ok2 := ev.Coverage["discharged"].(int); ok2 {
					ev.Coverage["discharged"] = n + m
				}
			}
			ev.Coverage["confinement"] = cev.Coverage
			ev.Assumptions = append(ev.Assumptions, cev.Assumptions...)
			ev.Violations += cev.Violations
			if cc > code && !(code == 1) {
				code = cc
			}
			if cc == 1 {
				code = 1
			}
		}
	}
	if o.only == "" {
		if bc := runBounded(o, ev); bc == 1 {
			code = 1
		} else if bc == 2 && code == 0 {
			code = 2 // a stand-in that could not be run leaves its part of the property undecided
		}
	}
	ev.WallS = time.Since(t0).Seconds()
	if o.only == "" && os.Getenv("VERIF_NOEVIDENCE") == "" {
		writeEvidence(o, ev)
	}
	return code
}

type Evidence struct {
	PropertyID  string                 `json:"property_id"`
	Tier        string                 `json:"tier"`
	Seed        int                    `json:"seed"`
	Level       string                 `json:"level"`
	Coverage    map[string]interface{} `json:"coverage"`
	Assumptions []string               `json:"assumptions"`
	WallS       float64                `json:"wall_s"`
	Violations  int                    `json:"violations"`
}

func writeEvidence(o *Options, ev *Evidence) {
	dir := filepath.Join(o.verif, "evidence")
	_ = os.MkdirAll(dir, 0o755)
	b, _ := json.MarshalIndent(ev, "", " ")
	_ = os.WriteFile(filepath.Join(dir, o.prop+".json"), append(b, '\n'), 0o644)
}

func undecided(ev *Evidence, msgs ...string) (int, *Evidence) {
	for _, m := range msgs {
		fmt.Println("UNDECIDED", m)
	}
	if ev.Coverage == nil {
		ev.Coverage = map[string]interface{}{}
	}
	ev.Coverage["undecided"] = msgs
	ev.Coverage["explanation"] = "the check could not decide the property on this tree: " + strings.Join(msgs, "; ")
	ev.Level = "other"
	return 2, ev
}

func runCheck(o *Options) (int, *Evidence) {
	ev := &Evidence{PropertyID: o.prop, Tier: o.tier, Seed: o.seed, Level: "proof", Coverage: map[string]interface{}{}}
	sp, err := loadSpecs(o)
	if err != nil {
		return undecided(ev, "CONTRACT-ERROR "+err.Error())
	}
	theSpecs = sp
	if files, err := filepath.Glob(filepath.Join(o.verif, "specs", "baseline", "*.locals.json")); err == nil {
		for _, f := range files {
			if b, err := os.ReadFile(f); err == nil {
				m := map[string]map[string]int{}
				if json.Unmarshal(b, &m) == nil {
					for fn, hs := range m {
						if localHints[fn] == nil {
							localHints[fn] = map[string]int{}
						}
						for k, v := range hs {
							localHints[fn][k] = v
						}
					}
				}
			}
		}
	}
	pk := relevantPackages(sp, o.prop)
	if len(pk) == 0 {
		return undecided(ev, "no contract clause is tagged "+o.prop)
	}
	prog := newProgram()
	byDir := map[string][]string{}
	load := map[string]bool{}
	for p := range pk {
		load[p] = true
	}
	// callee contracts may live in other packages of the same module: load those as well
	for _, f := range sp.Funcs {
		if f.External {
			continue
		}
		for p := range pk {
			d1, _ := moduleDir(o.repo, p)
			d2, _ := moduleDir(o.repo, f.Pkg)
			if d1 == d2 {
				load[f.Pkg] = true
			}
		}
	}
	for p := range load {
		d, pat := moduleDir(o.repo, p)
		byDir[d] = append(byDir[d], pat)
	}
	for d, pats := range byDir {
		sort.Strings(pats)
		if err := prog.load(d, pats); err != nil {
			return undecided(ev, "LOAD-ERROR "+err.Error())
		}
	}
	w := newWorld()
	theWorld = w
	var keys []string
	for k, f := range sp.Funcs {
		if !f.External && pk[f.Pkg] {
			keys = append(keys, k)
		}
	}
	sort.Strings(keys)
	var jobs []*job
	var execs []*Exec
	funcTagged := map[string]bool{}
	divergeOK := map[string]bool{}
	var errs []string
	var funcs []string
	var trusted []string
	var orphans []string
	// signatures recorded with the baseline: a contract whose function has another signature now
	// is stale - its pre- and post-conditions name the wrong things. The function is then treated
	// like one without contract (executed inline where it is called, with its loop invariants).
	sigFile := filepath.Join(o.verif, "specs", "baseline", "signatures.json")
	recorded := map[string]string{}
	if b, err := os.ReadFile(sigFile); err == nil {
		_ = json.Unmarshal(b, &recorded)
	}
	// what the body of each contracted function did when the baseline was written (names of the
	// functions it calls, channel operations): a "renamed" function must still do mostly that
	fpFile := filepath.Join(o.verif, "specs", "baseline", "fingerprints.json")
	fingerprints := map[string][]string{}
	if b, err := os.ReadFile(fpFile); err == nil {
		_ = json.Unmarshal(b, &fingerprints)
	}
	sp.Stale = map[string]*FuncSpec{}
	var stale []string
	// a contracted function that was only renamed: its contract names no function any more, and
	// exactly one function of the same package with the same receiver and signature has none
	for _, k := range keys {
		if prog.funcs[k] != nil || recorded[k] == "" || o.writeBaseline {
			continue
		}
		var cands []string
		for k2, fi2 := range prog.funcs {
			if sp.Funcs[k2] != nil || fi2.obj == nil || fi2.decl.Body == nil || keyPkg(k2) != keyPkg(k) {
				continue
			}
			if _, had := recorded[k2]; had {
				continue
			}
			if namelessSig(fi2.obj) == recorded[k] && recvOf(k2) == recvOf(k) && similarBody(fingerprints[k], bodyFingerprint(fi2)) {
				cands = append(cands, k2)
			}
		}
		if len(cands) == 1 {
			fs := *sp.Funcs[k]
			fs.Key = strings.TrimPrefix(cands[0], fs.Pkg+".")
			sp.Funcs[cands[0]] = &fs
			delete(sp.Funcs, k)
			recorded[cands[0]] = recorded[k]
			if hints, ok := localHints[strings.TrimPrefix(k, modRoot+"/")]; ok {
				localHints[strings.TrimPrefix(cands[0], modRoot+"/")] = hints
			}
			fmt.Printf("NOTE %s was renamed to %s (same receiver and signature, no other candidate): its contract follows\n", k, cands[0])
		}
	}
	keys = keys[:0]
	for k, f := range sp.Funcs {
		if !f.External && pk[f.Pkg] {
			keys = append(keys, k)
		}
	}
	sort.Strings(keys)
	for _, k := range keys {
		if fi := prog.funcs[k]; fi != nil && fi.obj != nil {
			cur := namelessSig(fi.obj)
			if o.writeBaseline {
				recorded[k] = cur
				fingerprints[k] = bodyFingerprint(fi)
			} else if was, ok := recorded[k]; ok && was != cur {
				sp.Stale[k] = sp.Funcs[k]
				delete(sp.Funcs, k)
				stale = append(stale, k)
				fmt.Printf("NOTE contract of %s is stale (signature was %s, is %s): the function is executed inline at its call sites\n", k, was, cur)
			}
		}
	}
	if o.writeBaseline && o.only == "" {
		if b, err := json.MarshalIndent(recorded, "", " "); err == nil {
			_ = os.WriteFile(sigFile, append(b, '\n'), 0o644)
		}
		if b, err := json.Marshal(fingerprints); err == nil {
			_ = os.WriteFile(fpFile, append(b, '\n'), 0o644)
		}
	}
	// The slice of the property: functions with a clause tagged P, functions all of whose clauses
	// are untagged, functions that use something tagged P - and, transitively, every function
	// under contract that one of them calls: the run relies on the callee's contract (its frame
	// above all), so the callee's own obligations belong to the same run. A callee that fails
	// them makes the run UNDECIDED (its untagged obligations) or a violation (its P-relevant ones).
	inSlice := map[string]bool{}
	{
		var work []string
		for _, k := range keys {
			fsq := sp.Funcs[k]
			fi := prog.funcs[k]
			if fsq == nil || fi == nil || fsq.Trusted {
				continue
			}
			if funcInSlice(fsq, o.prop) || usesTagged(w, sp, prog, fi, fsq, o.prop) {
				inSlice[k] = true
				work = append(work, k)
			}
		}
		for len(work) > 0 {
			k := work[len(work)-1]
			work = work[:len(work)-1]
			fi := prog.funcs[k]
			if fi == nil || fi.decl == nil || fi.decl.Body == nil || fi.pkg == nil {
				continue
			}
			ast.Inspect(fi.decl.Body, func(n ast.Node) bool {
				call, ok := n.(*ast.CallExpr)
				if !ok {
					return true
				}
				var obj types.Object
				fun := ast.Unparen(call.Fun)
				if ix, ok := fun.(*ast.IndexExpr); ok {
					fun = ix.X
				}
				switch f := fun.(type) {
				case *ast.Ident:
					obj = fi.pkg.TypesInfo.Uses[f]
				case *ast.SelectorExpr:
					obj = fi.pkg.TypesInfo.Uses[f.Sel]
				}
				if fn, ok := obj.(*types.Func); ok {
					ck := funcKeyOf(fn)
					if cs := sp.Funcs[ck]; cs != nil && !cs.External && !cs.Trusted && pk[cs.Pkg] && prog.funcs[ck] != nil && !inSlice[ck] {
						inSlice[ck] = true
						work = append(work, ck)
					}
				}
				return true
			})
		}
	}
	for _, k := range keys {
		fsq := sp.Funcs[k]
		if fsq == nil {
			continue // stale
		}
		fi := prog.funcs[k]
		if fi == nil {
			// the function was inlined, renamed or removed: its contract binds nothing any more;
			// whatever code replaced it is verified where it now lives (a function without
			// contract is executed inline at its call sites, channel operations keep their hooks)
			orphans = append(orphans, k)
			fmt.Printf("NOTE contract of %s (%s) names no function of this tree; skipped\n", k, fsq.Where)
			continue
		}
		if o.only != "" && !strings.Contains(fi.name(), o.only) {
			continue
		}
		if fsq.Trusted {
			trusted = append(trusted, fi.name())
			continue
		}
		if !inSlice[k] {
			continue
		}
		if funcHasTag(fsq, o.prop) {
			funcTagged[fi.name()] = true
		}
		if fsq.MayDiverge || fsq.MayDivergeFor[o.prop] {
			divergeOK[fi.name()] = true
		}
		x := func() (x *Exec) {
			// a construct the generator does not expect must not take the whole run down
			defer func() {
				if r := recover(); r != nil {
					x = &Exec{w: w, sp: sp, prog: prog, fn: fi, spec: fsq, prop: o.prop, decls: map[string]string{}}
					x.errs = append(x.errs, fmt.Sprintf("%s: internal error while generating conditions: %v", fi.name(), r))
				}
			}()
			return verifyFunc(w, sp, prog, fi, fsq, o.prop)
		}()
		execs = append(execs, x)
		funcs = append(funcs, fi.name())
		errs = append(errs, x.errs...)
	}
	var pendingErrs []string
	if len(errs) > 0 {
		sort.Strings(errs)
		if len(errs) > 30 {
			errs = errs[:30]
		}
		for i := range errs {
			if !strings.HasPrefix(errs[i], "CONTRACT") {
				errs[i] = "UNSUPPORTED " + errs[i]
			}
		}
		// the contracts of these functions no longer fit the code (a field or local they talk
		// about is gone): nothing is proved and nothing refuted. A run of the real code that
		// breaks the property statement settles it: the search templates are asked, and only a
		// failure whose message names this property counts.
		for _, x := range execs {
			if len(x.errs) == 0 || x.spec == nil || !funcHasTag(x.spec, o.prop) {
				continue
			}
			ob := &Obligation{Name: x.fn.name() + "#contract-mismatch", Kind: "contract", Func: x.fn.name(), Tags: []string{o.prop}, Status: "failed-unknown", Solver: map[string]int{}}
			ob.Queries = []*job{{q: &Query{Ob: ob.Name, Kind: "contract", Func: ob.Func, Tags: ob.Tags, Goal: x.errs[0]}, res: Result{Status: "unknown", Solver: "none", Output: strings.Join(x.errs, "\n")}}}
			rp := writeReplay(o, ob)
			if !rp.reproduced {
				continue
			}
			if namesProperty(rp.output, o.prop) {
				fmt.Printf("VIOLATION property=%s replay=%s\n", o.prop, rp.path)
				for _, e := range errs {
					fmt.Println("NOTE", e)
				}
				ev.Violations = 1
				if ev.Coverage == nil {
					ev.Coverage = map[string]interface{}{}
				}
				ev.Coverage["explanation"] = "the contracts no longer fit the code (" + errs[0] + "); a small-scope search over runs of the real code found one on which the statement of the property fails"
				return 1, ev
			}
		}
		// the functions that could not be translated are left out; what the others say is still
		// reported: a violation elsewhere stands, without one the run is undecided
		pendingErrs = errs
		var good []*Exec
		for _, x := range execs {
			if len(x.errs) == 0 {
				good = append(good, x)
			}
		}
		execs = good
	}
	prelude := w.prelude() + preludeExtra
	for _, x := range execs {
		for _, q := range append(x.qs, x.retCovers...) {
			body := x.render(q)
			pre := prelude
			if strings.Contains(body, "u2f") || strings.Contains(body, "fmul") || strings.Contains(body, "fround") {
				for _, a := range sp.SMTAxioms {
					pre += "(assert " + a + ")\n"
				}
			}
			if strings.Contains(body, "(pset ") {
				pre += msumRAxioms
			}
			if strings.Contains(body, "(pow2m1 ") {
				pre += pow2m1Axioms
			}
			jobs = append(jobs, &job{q: q, text: pre + body})
		}
	}
	type seQuery struct {
		x    *Exec
		path *bePath
		site string // "" = feasibility of the path itself
		j    *job
	}
	var seqs []*seQuery
	if o.prop == "C16" {
		for _, x := range execs {
			for _, bp := range x.bePaths {
				if bp.kind != "for" {
					continue
				}
				mk := func(extra string, site string) {
					pc := bp.pc
					if extra != "" {
						pc = append(pc[:len(pc):len(pc)], extra)
					}
					q := &Query{Ob: x.fn.name() + "#stoprule:path", Kind: "stop-feas", Func: x.fn.name(), Tags: []string{"C16"}, PC: pc, Goal: "false", Expect: "sat", Trail: bp.trail}
					j := &job{q: q, text: prelude + x.render(q)}
					seqs = append(seqs, &seQuery{x: x, path: bp, site: site, j: j})
				}
				mk("", "")
				for _, pl := range bp.polls {
					if pl.stop != "true" && pl.stop != "false" {
						mk(pl.stop, pl.site)
					}
				}
			}
		}
	}
	tmp, _ := os.MkdirTemp("", "govc-"+o.prop+"-")
	defer func() {
		if !o.dump {
			os.RemoveAll(tmp)
		} else {
			fmt.Println("queries kept in", tmp)
		}
	}()
	d := &Discharger{dir: tmp, cache: filepath.Join(o.verif, ".cache", "v2"), noCache: os.Getenv("VERIF_NOCACHE") != "" || o.tier == "thorough",
		timeout: o.timeout, seed: o.seed, all: o.tier == "thorough"}
	allJobs := jobs
	for _, sq := range seqs {
		allJobs = append(allJobs, sq.j)
	}
	d.solveAll(allJobs, 16)
	if o.dump {
		// index of the kept query files: file name, kind, expectation, obligation
		var ix strings.Builder
		for _, j := range allJobs {
			h := sha256.Sum256([]byte(j.text))
			fmt.Fprintf(&ix, "%s.smt2\t%s\t%s\t%s\t%s\n", hex.EncodeToString(h[:])[:24], j.q.Kind, j.q.Expect, j.res.Status, j.q.Ob)
		}
		_ = os.WriteFile(filepath.Join(tmp, "INDEX.tsv"), []byte(ix.String()), 0o644)
	}
	// C16, rule SE (DESIGN.md Appendix B): every feasible path through one iteration of an
	// unbounded loop passes a poll of the stop signals whose stop branch leaves the loop.
	type seLoop struct {
		x     *Exec
		ord   int
		line  string
		paths []*bePath
	}
	seLoops := map[string]*seLoop{}
	feasible := map[*bePath]bool{}
	stopTaken := map[*bePath]map[string]bool{}
	for _, sq := range seqs {
		if sq.site == "" {
			feasible[sq.path] = sq.j.res.Status != "unsat"
		} else if sq.j.res.Status != "unsat" {
			if stopTaken[sq.path] == nil {
				stopTaken[sq.path] = map[string]bool{}
			}
			stopTaken[sq.path][sq.site] = true
		}
	}
	for _, x := range execs {
		for _, bp := range x.bePaths {
			if bp.kind != "for" || o.prop != "C16" {
				continue
			}
			key := fmt.Sprintf("%s#stoprule:SE:loop[%d]", x.fn.name(), bp.ord)
			if seLoops[key] == nil {
				seLoops[key] = &seLoop{x: x, ord: bp.ord, line: bp.line}
			}
			seLoops[key].paths = append(seLoops[key].paths, bp)
		}
	}
	var seObs []*Obligation
	var seKeys []string
	for k := range seLoops {
		seKeys = append(seKeys, k)
	}
	sort.Strings(seKeys)
	for _, k := range seKeys {
		l := seLoops[k]
		stopBack := map[string]bool{}
		for _, bp := range l.paths {
			if !feasible[bp] {
				continue
			}
			for _, pl := range bp.polls {
				if pl.stop == "true" || stopTaken[bp][pl.site] {
					stopBack[pl.site] = true
				}
			}
		}
		ob := &Obligation{Name: k, Kind: "stoprule", Func: l.x.fn.name(), Tags: []string{"C16"}, Status: "discharged", Solver: map[string]int{}}
		for _, bp := range l.paths {
			if !feasible[bp] {
				continue
			}
			ok := false
			for _, pl := range bp.polls {
				if !stopBack[pl.site] {
					ok = true
				}
			}
			if !ok {
				ob.Status = "failed-sat"
				var sites []string
				for _, pl := range bp.polls {
					sites = append(sites, pl.site)
				}
				q := &Query{Ob: k, Kind: "stoprule", Func: l.x.fn.name(), Tags: []string{"C16"}, Trail: bp.trail,
					Goal: "an iteration of the loop at line " + l.line + " can repeat after a stop signal: polls on the path " + fmt.Sprint(sites) + ", none of whose stop branches leaves the loop"}
				ob.Queries = append(ob.Queries, &job{q: q, res: Result{Status: "sat", Solver: "stop-rule", Output: q.Goal}})
			}
		}
		seObs = append(seObs, ob)
	}

	// group into obligations
	obs := map[string]*Obligation{}
	var names []string
	for _, j := range jobs {
		ob := obs[j.q.Ob]
		if ob == nil {
			ob = &Obligation{Name: j.q.Ob, Kind: j.q.Kind, Func: j.q.Func, Tags: j.q.Tags, Solver: map[string]int{}}
			obs[j.q.Ob] = ob
			names = append(names, j.q.Ob)
		}
		ob.Queries = append(ob.Queries, j)
	}
	var sbReasons []string
	if o.prop == "C16" {
		var pks []string
		for p := range pk {
			pks = append(pks, p)
		}
		sort.Strings(pks)
		for _, p := range pks {
			sb, rs := stopRuleSB(sp, prog, p)
			seObs = append(seObs, sb...)
			sbReasons = append(sbReasons, rs...)
		}
	}
	for _, ob := range seObs {
		if obs[ob.Name] != nil { // several operations of the same text in one function
			if ob.Status != "discharged" {
				obs[ob.Name].Status = ob.Status
				obs[ob.Name].Queries = append(obs[ob.Name].Queries, ob.Queries...)
			}
			continue
		}
		obs[ob.Name] = ob
		names = append(names, ob.Name)
	}
	sort.Strings(names)
	byBackend := map[string]int{}
	var solverSeconds float64
	cached := 0
	for _, n := range names {
		ob := obs[n]
		if ob.Kind == "stoprule" {
			continue
		}
		if ob.Kind == "cover" {
			// vacuity: precondition covers must not be unsat; at least one return must be reachable
			ob.Status = "vacuous"
			for _, j := range ob.Queries {
				if j.res.Status != "unsat" {
					ob.Status = "discharged"
				}
			}
			if strings.HasSuffix(n, "#cover:precondition") {
				for _, j := range ob.Queries {
					if j.res.Status == "unsat" {
						ob.Status = "vacuous"
					}
				}
			}
		} else {
			ob.Status = "discharged"
			for _, j := range ob.Queries {
				switch j.res.Status {
				case "unsat":
				case "sat":
					ob.Status = "failed-sat"
				default:
					if ob.Status != "failed-sat" {
						ob.Status = "failed-unknown"
					}
				}
			}
		}
		for _, j := range ob.Queries {
			ob.Seconds += j.res.Seconds
			solverSeconds += j.res.Seconds
			if j.res.Cached {
				cached++
			}
			if j.res.Status == "unsat" || j.res.Status == "sat" {
				byBackend[j.res.Solver]++
				ob.Solver[j.res.Solver]++
			}
		}
	}
	baseline := readLines(filepath.Join(o.verif, "specs", "baseline", o.prop+".txt"))
	if o.writeBaseline {
		hints := map[string]map[string]int{}
		for _, x := range execs {
			if len(x.usedLocals) > 0 {
				hints[x.fn.name()] = x.usedLocals
			}
		}
		hb, _ := json.MarshalIndent(hints, "", " ")
		_ = os.MkdirAll(filepath.Join(o.verif, "specs", "baseline"), 0o755)
		_ = os.WriteFile(filepath.Join(o.verif, "specs", "baseline", o.prop+".locals.json"), append(hb, '\n'), 0o644)
	}
	known := readKnown(filepath.Join(o.verif, "known_findings.txt"), o.prop)
	// an edit that adds or removes a call, loop or arithmetic operation renumbers the ones after
	// it: an obligation also counts as "on the baseline" when it is there up to those ordinals
	baselineNorm := map[string]bool{}
	baselineFuncs := map[string]bool{}
	for n := range baseline {
		baselineNorm[normOb(n)] = true
		if i := strings.Index(n, "#"); i > 0 {
			baselineFuncs[n[:i]] = true
		}
	}

	nOb, nDis := 0, 0
	var undecObs []*Obligation
	var violations, undec, vac []string
	var samples []interface{}
	var slow []string
	for _, n := range names {
		ob := obs[n]
		if ob.Kind == "cover" {
			if ob.Status == "vacuous" {
				if strings.HasSuffix(n, "#cover:return") && divergeOK[ob.Func] {
					continue
				}
				vac = append(vac, "VACUOUS "+n)
			}
			continue
		}
		nOb++
		if ob.Seconds > float64(o.timeout)/2 && !allCached(ob) {
			slow = append(slow, fmt.Sprintf("%s %.1fs", n, ob.Seconds))
		}
		if ob.Status == "discharged" {
			nDis++
			if len(samples) < 6 && hasTag(ob.Tags, o.prop) && len(ob.Queries) > 0 {
				samples = append(samples, map[string]interface{}{"obligation": n, "queries": len(ob.Queries), "backend": ob.Solver, "trail": ob.Queries[0].q.Trail, "goal": clip(ob.Queries[0].q.Goal, 400)})
			}
			continue
		}
		mine := hasTag(ob.Tags, o.prop)
		if !mine && ob.Kind == "requires" && ob.Status == "failed-sat" && funcTagged[ob.Func] && externalCallee(sp, n) {
			// the precondition of a library function (its panic condition) definitely fails in a
			// function that carries clauses of this property
			mine = true
		}
		if !mine && ob.Kind == "safety" && ob.Status == "failed-sat" && funcTagged[ob.Func] {
			// a definite arithmetic / bounds failure in a function that carries clauses of this
			// property: the proof of those clauses assumed machine arithmetic to be exact
			mine = true
		}
		if what, ok := known[n]; ok && mine {
			fmt.Printf("KNOWN-FINDING: property=%s %s (%s)\n", o.prop, what, n)
			nDis++ // listed finding: not counted as undischarged for the exit status; reported in evidence
			continue
		}
		if !mine {
			undec = append(undec, "PREREQUISITE-FAILED "+n+" ("+ob.Status+")")
			continue
		}
		onBase := baseline[n] || baselineNorm[normOb(n)]
		if !onBase && ob.Kind == "frame" && baselineFuncs[ob.Func] {
			// a frame obligation exists only for the components the function writes: one that
			// appears for a function whose other obligations are on the baseline is the
			// function's frame condition, which held (vacuously) before
			onBase = true
		}
		if ob.Kind == "ownership" {
			onBase = true // an operation on a watched channel moved into a goroutine without contract: decided by construction
		}
		weakSat := false
		if ob.Status == "failed-sat" {
			weakSat = true
			for _, j := range ob.Queries {
				if j.res.Status == "sat" && !j.q.Weak {
					weakSat = false
				}
			}
		}
		brokenOnly := len(ob.Queries) > 0
		for _, j := range ob.Queries {
			if j.res.Status != "unsat" && !j.q.BrokenPath && j.q.Broken == "" {
				brokenOnly = false
			}
		}
		// every failing path of the obligation runs through the head of a loop that has no
		// invariant at all (a loop that is new, or that lost its contract with the function it
		// was in): the state behind such a head is arbitrary, whatever is or is not proved
		// there says nothing about the runs of the code
		// (a frame obligation is about a write the function makes, not about what is known at
		// that point: it is judged as usual)
		weakOnly := len(ob.Queries) > 0 && ob.Kind != "ownership" && ob.Kind != "frame"
		for _, j := range ob.Queries {
			if j.res.Status != "unsat" && !j.q.Weak {
				weakOnly = false
			}
		}
		if weakOnly && !brokenOnly {
			undec = append(undec, "UNDISCHARGED "+n+" (every failing path runs behind a loop without invariants; "+ob.Status+")")
			undecObs = append(undecObs, ob)
			continue
		}
		if brokenOnly && ob.Kind != "ownership" {
			// the clause itself cannot be evaluated any more (it names something that is gone), or
			// every failing path runs through a loop with such an invariant: a contract out of date
			// proves nothing and refutes nothing (a failing input of the real code can still decide)
			undec = append(undec, "UNDISCHARGED "+n+" (CONTRACT-MISMATCH: a clause names something that is gone, or the path runs behind such a loop invariant; "+ob.Status+")")
			undecObs = append(undecObs, ob)
			continue
		}
		if !onBase && (ob.Status == "failed-unknown" || weakSat) {
			// unknown: nothing is known. sat on an obligation the unchanged tree did not have, on
			// a path through the head of a loop without invariants: the model is a state after an
			// arbitrary havoc, not one a run reaches (the invariants moved away with the code)
			undec = append(undec, "UNDISCHARGED "+n+" (not on the baseline list; "+ob.Status+")")
			undecObs = append(undecObs, ob)
			continue
		}
		rp := writeReplay(o, ob)
		line := fmt.Sprintf("VIOLATION property=%s replay=%s", o.prop, rp.path)
		if !rp.reproduced {
			line += " no-failing-input-found"
		}
		violations = append(violations, line)
		if o.verbose {
			fmt.Println("  failed:", n, ob.Status)
		}
	}
	if o.verbose || o.only != "" {
		for _, n := range names {
			ob := obs[n]
			var st []string
			for _, j := range ob.Queries {
				st = append(st, j.res.Status)
			}
			fmt.Printf("  %-14s %s %v %.2fs\n", ob.Status, n, st, ob.Seconds)
			if ob.Status != "discharged" {
				for _, j := range ob.Queries {
					if j.res.Status != "unsat" && j.res.Status != "sat" {
						fmt.Printf("      tried: %v\n      output: %s\n", j.res.Tried, clip(j.res.Output, 300))
					}
				}
			}
		}
	}
	ev.Coverage["obligations"] = nOb
	ev.Coverage["discharged"] = nDis
	ev.Coverage["queries"] = len(jobs)
	ev.Coverage["queries_answered_from_cache"] = cached
	ev.Coverage["checker_cmd"] = "govc check -prop " + o.prop + " -tier " + o.tier + " (VCs regenerated from /repo working tree; solvers: z3-new 5.1.0, cvc5 1.0, z3 4.8.12)"
	ev.Coverage["by_backend"] = byBackend
	if o.tier == "thorough" {
		// verdict of every solver on every query
		matrix := map[string]map[string]int{}
		for _, j := range jobs {
			for _, t := range j.res.Tried {
				i := strings.Index(t, "=")
				k := strings.Index(t, "(")
				if i < 0 || k < i {
					continue
				}
				if matrix[t[:i]] == nil {
					matrix[t[:i]] = map[string]int{}
				}
				matrix[t[:i]][t[i+1:k]]++
			}
		}
		ev.Coverage["solver_matrix"] = matrix
	}
	cachedSeconds := 0.0
	for _, j := range jobs {
		if j.res.Cached {
			cachedSeconds += j.res.CachedSeconds
		}
	}
	ev.Coverage["solver_seconds_of_cached_answers_when_first_computed"] = cachedSeconds
	ev.Coverage["solver_seconds"] = solverSeconds
	ev.Coverage["functions_under_contract"] = funcs
	ev.Coverage["trusted_functions"] = trusted
	ev.Coverage["contracts_without_function"] = orphans
	ev.Coverage["stale_contracts"] = stale
	ev.Coverage["samples"] = samples
	ev.Coverage["slow_obligations"] = slow
	ev.Coverage["vacuity_checks"] = len(names) - nOb
	ev.Coverage["trusted_base"] = trustedBase(sp, pk)
	ev.Assumptions = append(assumptions(sp, pk, o.prop), sbReasons...)
	for _, x := range execs {
		for _, a := range x.anonGoroutines {
			ev.Assumptions = append(ev.Assumptions, "anonymous goroutine started at "+a+": its body is not verified")
		}
	}
	ev.Violations = len(violations)
	if o.writeBaseline {
		var ok []string
		for _, n := range names {
			if obs[n].Kind != "cover" && obs[n].Status == "discharged" {
				ok = append(ok, n)
			}
		}
		_ = os.MkdirAll(filepath.Join(o.verif, "specs", "baseline"), 0o755)
		_ = os.WriteFile(filepath.Join(o.verif, "specs", "baseline", o.prop+".txt"), []byte(strings.Join(ok, "\n")+"\n"), 0o644)
	}
	if len(violations) == 0 && len(undecObs) > 0 {
		// nothing is proved and nothing refuted for these obligations of the property. A run of
		// the real code that breaks the property statement settles it: the search templates are
		// asked, and only a failure whose message names this property counts.
		for _, ob := range undecObs {
			rp := writeReplay(o, ob)
			if !rp.reproduced {
				continue
			}
			if namesProperty(rp.output, o.prop) {
				violations = append(violations, fmt.Sprintf("VIOLATION property=%s replay=%s", o.prop, rp.path))
				ev.Violations++
				break
			}
		}
	}
	if len(violations) > 0 {
		for _, v := range violations {
			fmt.Println(v)
		}
		for _, u := range undec {
			fmt.Println("NOTE", u)
		}
		return 1, ev
	}
	if len(pendingErrs) > 0 {
		return undecided(ev, append(pendingErrs, undec...)...)
	}
	if len(vac) > 0 && len(undec) == 0 {
		return undecided(ev, vac...)
	}
	if len(undec) > 0 {
		return undecided(ev, undec...)
	}
	if nOb == 0 {
		return undecided(ev, "no obligations were generated")
	}
	fmt.Printf("OK property=%s obligations=%d discharged=%d queries=%d functions=%d solver_s=%.1f\n", o.prop, nOb, nDis, len(jobs), len(funcs), solverSeconds)
	return 0, ev
}

// externalCallee: the obligation is a precondition at a call of a function outside the repository
// (name "...#call[N:pkg.Func]:requires:...").
func externalCallee(sp *Specs, name string) bool {
	i := strings.Index(name, "#call[")
	if i < 0 {
		return false
	}
	rest := name[i+len("#call["):]
	j := strings.Index(rest, "]:requires")
	if j < 0 {
		return false
	}
	callee := rest[:j]
	if c := strings.Index(callee, ":"); c >= 0 {
		callee = callee[c+1:]
	}
	for k, f := range sp.Funcs {
		if f.External && (k == callee || strings.HasSuffix(k, "/"+callee)) {
			return true
		}
	}
	return false
}

func allCached(ob *Obligation) bool {
	for _, j := range ob.Queries {
		if !j.res.Cached {
			return false
		}
	}
	return true
}

func clip(s string, n int) string {
	if len(s) > n {
		return s[:n] + "…"
	}
	return s
}

func readLines(path string) map[string]bool {
	out := map[string]bool{}
	b, err := os.ReadFile(path)
	if err != nil {
		return out
	}
	for _, l := range strings.Split(string(b), "\n") {
		if l = strings.TrimSpace(l); l != "" {
			out[l] = true
		}
	}
	return out
}

// readKnown parses "known: property=Cxx obligation=<name> what=<text>" lines.
func readKnown(path, prop string) map[string]string {
	out := map[string]string{}
	b, err := os.ReadFile(path)
	if err != nil {
		return out
	}
	for _, l := range strings.Split(string(b), "\n") {
		l = strings.TrimSpace(l)
		if !strings.HasPrefix(l, "known:") {
			continue
		}
		f := strings.Fields(l)
		var p, ob string
		for _, w := range f {
			if strings.HasPrefix(w, "property=") {
				p = w[len("property="):]
			}
			if strings.HasPrefix(w, "obligation=") {
				ob = w[len("obligation="):]
			}
		}
		what := ""
		if i := strings.Index(l, "what="); i >= 0 {
			what = l[i+5:]
		}
		if p == prop && ob != "" {
			out[ob] = what
		}
	}
	return out
}

func trustedBase(sp *Specs, pk map[string]bool) []string {
	out := []string{
		"govc (Go-to-SMT translation of the supported subset) and the SMT solvers z3 4.8.12, z3 5.1.0, cvc5 1.0",
		"ground instances of the lemma schemas for msum/msumR/lsum/pset/pow2m1 emitted at map writes, deletes, range loops and appends: the schemas are machine-checked in /verif/lean/SumLemmas.lean (Lean 4 + Mathlib, ./check.sh lemmas); trusted: that what is emitted is an instance of them",
		"an object never exceeds MaxInt bytes (size*cap <= MaxInt for slices of elements of 2 or more bytes)",
		"assumed contracts of external functions in /verif/specs/externals.spec",
		"Go channel semantics (FIFO, exactly-once, close observed after buffered items) and the Go memory model for channel hand-off",
		"partial correctness: no termination claims",
	}
	for _, f := range sp.Funcs {
		if f.Trusted && pk[f.Pkg] {
			out = append(out, "trusted contract (body not verified): "+f.Pkg+"."+f.Key)
		}
	}
	sort.Strings(out[5:])
	return out
}

func assumptions(sp *Specs, pk map[string]bool, prop string) []string {
	var out []string
	for _, e := range sp.Events {
		if !pk[e.Pkg] {
			continue
		}
		for _, c := range e.Clauses {
			if c.Kind == "assume-env" && c.relevant(prop) {
				out = append(out, fmt.Sprintf("environment assumption at %s %s: %s", e.Kind, e.Pattern, c.Text))
			}
		}
	}
	for k, f := range sp.Funcs {
		if !pk[f.Pkg] {
			continue
		}
		for a := range f.Assumed {
			out = append(out, "arithmetic obligation assumed, not proved: "+k+" "+a)
		}
		for a := range f.Wraps {
			out = append(out, "wrapping (mod 2^64) arithmetic declared intended: "+k+" "+a)
		}
	}
	for _, ft := range sp.FuncTypes {
		if pk[ft.Pkg] {
			for _, c := range ft.Clauses {
				if c.Kind == "ensures" && c.relevant(prop) {
					out = append(out, "assumed of every value of function type "+ft.Name+": "+c.Text)
				}
			}
		}
	}
	sort.Strings(out)
	out = append(out, "integers are mathematical in SMT; equality with the 64-bit machine result is proved at every + - * and conversion (safety obligations), except where listed above",
		"float64 operations are uninterpreted", "the type parameter is an uninterpreted sort")
	for p := range pk {
		if strings.HasSuffix(p, "/internal/general") {
			out = append(out, "values of a type parameter constrained to integer types (internal/general.DivideWithMin) are mathematical integers: no overflow obligations are generated for them, the width is not known")
			break
		}
	}
	return out
}

// runBounded runs the bounded stand-ins registered for the property in
// replay/templates/BOUNDED.txt: clauses no contract within reach decides (floating point,
// relations between two calls) are checked on the real code for a stated, finite scope. They are
// labelled bounded in the evidence and never counted among the discharged obligations.
var otherPropRe = regexp.MustCompile(`C\d\d(/C\d\d)*: [^\n]*`)

func runBounded(o *Options, ev *Evidence) int {
	b, err := os.ReadFile(filepath.Join(o.verif, "replay", "templates", "BOUNDED.txt"))
	if err != nil {
		return 0
	}
	known := readKnown(filepath.Join(o.verif, "known_findings.txt"), o.prop)
	code := 0
	var list []interface{}
	for _, l := range strings.Split(string(b), "\n") {
		f := strings.Split(l, "\t")
		if (len(f) != 6 && len(f) != 7) || strings.HasPrefix(l, "#") || f[0] != o.prop {
			continue
		}
		if len(f) == 7 && strings.TrimSpace(f[6]) == "thorough" && o.tier != "thorough" {
			continue // explorations of the thorough tier only
		}
		tmpl, mod, rel, id, what := f[1], f[2], f[3], f[4], f[5]
		tb, err := os.ReadFile(filepath.Join(o.verif, "replay", "templates", tmpl))
		if err != nil {
			fmt.Println("UNDECIDED bounded stand-in " + id + ": " + err.Error())
			if code == 0 {
				code = 2
			}
			continue
		}
		src := strings.NewReplacer("{{.Obligation}}", "bounded:"+id, "{{.Property}}", o.prop).Replace(string(tb))
		modDir := o.repo
		if mod == "v2" {
			modDir = filepath.Join(o.repo, "v2")
		}
		t0 := time.Now()
		out, failed := runOverlayTest(modDir, rel, []byte(src))
		entry := map[string]interface{}{"id": id, "label": "bounded (not a proof)", "statement_and_bound": what, "template": tmpl, "seconds": time.Since(t0).Seconds()}
		cases := 0
		if m := regexp.MustCompile(`VERIFCASES (\d+)`).FindStringSubmatch(out); m != nil {
			cases, _ = strconv.Atoi(m[1])
		}
		entry["cases"] = cases
		switch {
		case failed && !namesProperty(out, o.prop) && otherPropRe.MatchString(out):
			// the run that failed breaks the statement of another property (the templates stop at
			// the first failing run): nothing is known about this property's statement beyond it
			entry["result"] = "stopped at a run on which a statement of another property fails: " + clip(otherPropRe.FindString(out), 200)
			fmt.Println("UNDECIDED bounded stand-in " + id + ": stopped at a run on which a statement of another property fails (" + clip(otherPropRe.FindString(out), 160) + ")")
			if code == 0 {
				code = 2
			}
		case failed:
			name := "bounded:" + id
			if whatK, ok := known[name]; ok {
				fmt.Printf("KNOWN-FINDING: property=%s %s (%s)\n", o.prop, whatK, name)
				entry["result"] = "known finding"
				break
			}
			entry["result"] = "failed"
			dir := filepath.Join(o.verif, "replays")
			_ = os.MkdirAll(dir, 0o755)
			path := filepath.Join(dir, o.prop+"-bounded_"+sane(id)+".json")
			rb, _ := json.MarshalIndent(map[string]interface{}{"property": o.prop, "obligation": name, "status": "failed (bounded check on the real code)",
				"statement_and_bound": what, "go_test_output": clip(out, 4000), "test_source_template": tmpl,
				"note": "a bounded stand-in found an input of the real code on which the statement fails"}, "", " ")
			_ = os.WriteFile(path, append(rb, '\n'), 0o644)
			fmt.Printf("VIOLATION property=%s replay=%s\n", o.prop, path)
			ev.Violations++
			code = 1
		case strings.Contains(out, "ok  ") && cases > 0:
			entry["result"] = "held on every case of the scope"
		default:
			entry["result"] = "not run: " + clip(out, 300)
			fmt.Println("UNDECIDED bounded stand-in " + id + " did not run: " + clip(out, 300))
			if code == 0 {
				code = 2
			}
		}
		list = append(list, entry)
	}
	if len(list) > 0 {
		ev.Coverage["bounded_stand_ins"] = list
		if code == 0 {
			fmt.Printf("BOUNDED-OK property=%s bounded stand-ins=%d held on every case of their scope (labelled bounded, not counted as proved)\n", o.prop, len(list))
		}
	}
	return code
}

// bodyFingerprint: the names of the functions a body calls and its channel operations, sorted,
// with repetitions.
func bodyFingerprint(fi *FuncInfo) []string {
	out := []string{}
	if fi == nil || fi.decl == nil || fi.decl.Body == nil {
		return out
	}
	ast.Inspect(fi.decl.Body, func(n ast.Node) bool {
		switch t := n.(type) {
		case *ast.CallExpr:
			switch f := ast.Unparen(t.Fun).(type) {
			case *ast.Ident:
				out = append(out, f.Name)
			case *ast.SelectorExpr:
				out = append(out, f.Sel.Name)
			}
		case *ast.SendStmt:
			out = append(out, "chan<-")
		case *ast.UnaryExpr:
			if t.Op == token.ARROW {
				out = append(out, "<-chan")
			}
		case *ast.RangeStmt:
			out = append(out, "range")
		case *ast.ForStmt:
			out = append(out, "for")
		}
		return true
	})
	sort.Strings(out)
	return out
}

// similarBody: at least half of what either body does is done by the other as well (multiset
// overlap); two bodies that do nothing of the kind recorded are similar. Without a recorded
// fingerprint (baseline older than this rule) nothing is similar.
func similarBody(was, is []string) bool {
	if was == nil {
		return false
	}
	if len(was) == 0 && len(is) == 0 {
		return true
	}
	count := map[string]int{}
	for _, w := range was {
		count[w]++
	}
	common := 0
	for _, w := range is {
		if count[w] > 0 {
			count[w]--
			common++
		}
	}
	larger := len(was)
	if len(is) > larger {
		larger = len(is)
	}
	return 2*common >= larger
}

// namelessSig: receiver, parameter and result types of a function without the parameter names
// (a renamed parameter does not make a contract stale: names in contracts are resolved by
// declaration ordinal as well).
func namelessSig(fn *types.Func) string {
	sig, ok := fn.Type().(*types.Signature)
	if !ok {
		return fn.Type().String()
	}
	var b strings.Builder
	tl := func(t *types.Tuple) {
		b.WriteString("(")
		for i := 0; i < t.Len(); i++ {
			if i > 0 {
				b.WriteString(", ")
			}
			b.WriteString(t.At(i).Type().String())
		}
		b.WriteString(")")
	}
	if tp := sig.TypeParams(); tp != nil {
		fmt.Fprintf(&b, "[%d]", tp.Len())
	}
	tl(sig.Params())
	if sig.Variadic() {
		b.WriteString("...")
	}
	tl(sig.Results())
	return b.String()
}

// recvOf: the receiver part of a function key ("pkg.(*T).m" -> "(*T)", "pkg.f" -> "").
func recvOf(key string) string {
	k := key[strings.LastIndex(key, "/")+1:]
	if i := strings.Index(k, ".("); i >= 0 {
		if j := strings.Index(k[i:], ")."); j >= 0 {
			return k[i+1 : i+j+1]
		}
	}
	if parts := strings.Split(k, "."); len(parts) == 3 {
		return parts[1]
	}
	return ""
}
