package main

// Symbolic execution of statements, loops cut by invariants, function-level driver
// (DESIGN.md §2.4).

import (
	"fmt"
	"go/ast"
	"go/token"
	"go/types"
	"sort"
	"strings"
)

type Ctx struct {
	onReturn   func(st *State, res []Val)
	onBreak    func(st *State)
	onContinue func(st *State)
}

const maxPaths = 4000

func (x *Exec) stmts(list []ast.Stmt, st *State, cx *Ctx, k func(*State)) {
	if len(list) == 0 {
		k(st)
		return
	}
	x.stmt(list[0], st, cx, func(s *State) { x.stmts(list[1:], s, cx, k) })
}

func (x *Exec) stmt(s ast.Stmt, st *State, cx *Ctx, k func(*State)) {
	if len(x.errs) > 20 || x.paths > maxPaths {
		return
	}
	if call, fi := x.findInlinable(s, st); call != nil {
		x.inline(call, fi, st, func(st2 *State, res []Val) {
			if st2.inlined == nil {
				st2.inlined = map[*ast.CallExpr][]Val{}
			}
			st2.inlined[call] = res
			x.stmt(s, st2, cx, k)
		})
		return
	}
	switch s := s.(type) {
	case *ast.EmptyStmt:
		k(st)
	case *ast.BlockStmt:
		x.stmts(s.List, st, cx, k)
	case *ast.ExprStmt:
		if call, ok := ast.Unparen(s.X).(*ast.CallExpr); ok {
			if lit, ok := ast.Unparen(call.Fun).(*ast.FuncLit); ok && len(call.Args) == 0 && lit.Type.Results == nil {
				inner := &Ctx{onReturn: func(s3 *State, _ []Val) { k(s3) }}
				x.stmts(lit.Body.List, st, inner, k)
				return
			}
		}
		x.evalMulti(st, s.X)
		k(st)
	case *ast.DeclStmt:
		gd, ok := s.Decl.(*ast.GenDecl)
		if !ok || gd.Tok == token.TYPE {
			x.unsupported(s, "declaration")
			k(st)
			return
		}
		if gd.Tok == token.CONST {
			k(st)
			return
		}
		for _, sp := range gd.Specs {
			vs := sp.(*ast.ValueSpec)
			for i, n := range vs.Names {
				if i < len(vs.Values) {
					x.assignTo(st, n, x.eval(st, vs.Values[i]))
				} else {
					t := x.info().Defs[n].Type()
					x.assignTo(st, n, Val{T: x.w.zero(x.w.sortOf(t)), S: x.w.sortOf(t), G: t})
				}
			}
		}
		k(st)
	case *ast.AssignStmt:
		x.assign(st, s)
		k(st)
	case *ast.IncDecStmt:
		cur := x.eval(st, s.X)
		op := token.ADD
		if s.Tok == token.DEC {
			op = token.SUB
		}
		t := x.info().TypeOf(s.X)
		v := x.arith(st, s, op, cur, Val{T: "1", S: "Int", G: t}, t)
		x.assignTo(st, s.X, v)
		k(st)
	case *ast.IfStmt:
		x.ifStmt(s, st, cx, k)
	case *ast.ReturnStmt:
		var res []Val
		if len(s.Results) == 1 {
			res = x.evalMulti(st, s.Results[0])
		} else {
			for _, r := range s.Results {
				res = append(res, x.eval(st, r))
			}
		}
		cx.onReturn(st, res)
	case *ast.ForStmt, *ast.RangeStmt:
		x.loop(s, st, cx, k)
	case *ast.BranchStmt:
		switch {
		case s.Label != nil:
			x.unsupported(s, "labelled branch")
		case s.Tok == token.BREAK && cx.onBreak != nil:
			cx.onBreak(st)
		case s.Tok == token.CONTINUE && cx.onContinue != nil:
			cx.onContinue(st)
		default:
			x.unsupported(s, "branch "+s.Tok.String())
		}
	case *ast.SendStmt:
		v := x.eval(st, s.Value)
		x.sendEvent(st, s.Chan, v, s)
		k(st)
	case *ast.SelectStmt:
		x.selectStmt(s, st, cx, k)
	case *ast.SwitchStmt:
		x.switchStmt(s, st, cx, k)
	case *ast.LabeledStmt:
		// labels are accepted as long as no labelled branch refers to them (checked at the branch)
		x.stmt(s.Stmt, st, cx, k)
	case *ast.DeferStmt:
		call := s.Call
		if lit, ok := ast.Unparen(call.Fun).(*ast.FuncLit); ok && len(call.Args) == 0 && lit.Type.Results == nil {
			// defer func() { ... }(): the body runs at return, in this function's scope
			st.defers = append(st.defers, deferred{run: func(s2 *State, x *Exec, k2 func(*State)) {
				inner := &Ctx{onReturn: func(s3 *State, _ []Val) { k2(s3) }}
				x.stmts(lit.Body.List, s2, inner, k2)
			}})
			k(st)
			return
		}
		// the arguments of a deferred call are evaluated now, the call itself runs at return
		if len(call.Args) > 0 {
			var pre []Val
			for _, a := range call.Args {
				pre = append(pre, x.eval(st, a))
			}
			if st.preArgs == nil {
				st.preArgs = map[*ast.CallExpr][]Val{}
			}
			st.preArgs[call] = pre
		}
		st.defers = append(st.defers, deferred{run: func(s2 *State, x *Exec, k2 func(*State)) {
			if s2.preArgs == nil && st.preArgs != nil {
				s2.preArgs = map[*ast.CallExpr][]Val{}
			}
			if pre, ok := st.preArgs[call]; ok {
				if _, has := s2.preArgs[call]; !has {
					s2.preArgs[call] = pre
				}
			}
			if fn := x.staticCallee(call); fn != nil && fn.Pkg() != nil && fn.Pkg().Path() == x.fn.pkgPath() {
				key := funcKeyOf(fn)
				if fi := x.prog.funcs[key]; x.sp.Funcs[key] == nil && fi != nil && fi.decl.Body != nil {
					x.inline(call, fi, s2, func(s3 *State, _ []Val) { k2(s3) })
					return
				}
			}
			x.evalMulti(s2, call)
			k2(s2)
		}})
		k(st)
	case *ast.GoStmt:
		x.spawn(st, s)
		k(st)
	default:
		x.unsupported(s, fmt.Sprintf("statement %T", s))
		k(st)
	}
}

func (x *Exec) assign(st *State, s *ast.AssignStmt) {
	switch {
	case s.Tok == token.ASSIGN || s.Tok == token.DEFINE:
		if len(s.Lhs) == len(s.Rhs) {
			var vals []Val
			for _, r := range s.Rhs {
				vals = append(vals, x.eval(st, r))
			}
			for i, l := range s.Lhs {
				x.assignTo(st, l, vals[i])
			}
			return
		}
		if len(s.Rhs) != 1 {
			x.unsupported(s, "assignment shape")
			return
		}
		var vals []Val
		switch r := ast.Unparen(s.Rhs[0]).(type) {
		case *ast.IndexExpr: // v, ok := m[k]
			vals = x.evalIndex(st, r, true)
		case *ast.UnaryExpr: // v, ok := <-ch
			if r.Op == token.ARROW {
				v, ok := x.recvEvent(st, r.X, r)
				vals = []Val{v, ok}
			}
		case *ast.CallExpr:
			vals = x.evalMulti(st, r)
		}
		if len(vals) != len(s.Lhs) {
			x.unsupported(s, "multi-value assignment")
			return
		}
		for i, l := range s.Lhs {
			x.assignTo(st, l, vals[i])
		}
	default: // op=
		var op token.Token
		switch s.Tok {
		case token.ADD_ASSIGN:
			op = token.ADD
		case token.SUB_ASSIGN:
			op = token.SUB
		case token.MUL_ASSIGN:
			op = token.MUL
		case token.QUO_ASSIGN:
			op = token.QUO
		case token.REM_ASSIGN:
			op = token.REM
		case token.SHL_ASSIGN:
			op = token.SHL
		case token.SHR_ASSIGN:
			op = token.SHR
		case token.AND_ASSIGN:
			op = token.AND
		case token.OR_ASSIGN:
			op = token.OR
		case token.XOR_ASSIGN:
			op = token.XOR
		case token.AND_NOT_ASSIGN:
			op = token.AND_NOT
		default:
			x.unsupported(s, "assignment operator "+s.Tok.String())
			return
		}
		// the right operand is evaluated first so that a call on the right cannot be
		// confused with a stale read of the left (Appendix C: x op= f())
		b := x.eval(st, s.Rhs[0])
		a := x.eval(st, s.Lhs[0])
		t := x.info().TypeOf(s.Lhs[0])
		x.assignTo(st, s.Lhs[0], x.arith(st, s, op, a, b, t))
	}
}

func (x *Exec) ifStmt(s *ast.IfStmt, st *State, cx *Ctx, k func(*State)) {
	cont := func(st *State) {
		c := x.eval(st, s.Cond)
		thenSt := st.fork()
		thenSt.assume(c.T)
		thenSt.note("if@" + x.line(s) + ":then")
		elseSt := st
		elseSt.assume(not(c.T))
		elseSt.note("if@" + x.line(s) + ":else")
		x.stmt(s.Body, thenSt, cx, k)
		if s.Else != nil {
			x.stmt(s.Else, elseSt, cx, k)
		} else {
			k(elseSt)
		}
	}
	if s.Init != nil {
		x.stmt(s.Init, st, cx, cont)
	} else {
		cont(st)
	}
}

func (x *Exec) line(n ast.Node) string {
	return fmt.Sprint(x.fn.pkg.Fset.Position(n.Pos()).Line)
}

func (x *Exec) selectStmt(s *ast.SelectStmt, st *State, cx *Ctx, k func(*State)) {
	inner := *cx
	inner.onBreak = k
	// C16: a select with stop cases is a poll of the stop signals
	stopCase := map[int]bool{}
	hasStop := false
	for i, cl := range s.Body.List {
		if x.isStopComm(cl.(*ast.CommClause).Comm) {
			stopCase[i] = true
			hasStop = true
		}
	}
	site := fmt.Sprintf("select[%d]", x.ordinal(s))
	if hasStop {
		if g := (&SEnv{x: x, st: st, pkg: x.fn.pkgPath()}).ghostDecl("gPolls"); g != nil {
			old := (&SEnv{x: x, st: st, pkg: x.fn.pkgPath()}).eval(&SX{Op: "id", Name: "gPolls", Pos: "engine"})
			c := x.freshConst("g_gPolls", "Int")
			st.assume(app("=", c, app("+", old.T, "1")))
			st.heap["g_gPolls"] = Val{T: c, S: "Int"}
		}
	}
	for i, cl := range s.Body.List {
		cc := cl.(*ast.CommClause)
		b := st.fork()
		b.note(fmt.Sprintf("select@%s:case%d", x.line(s), i))
		if hasStop {
			b.polls = append(b.polls, poll{site, fmt.Sprint(stopCase[i])})
		}
		switch c := cc.Comm.(type) {
		case nil:
			// the default case: an environment assumption may exclude it (e.g. "data is waiting")
			for _, ev := range x.sp.Events {
				if ev.Kind == "default" && ev.Pkg == x.fn.pkgPath() && (ev.In == "" || strings.HasSuffix(x.fn.key, "."+ev.In) || strings.HasSuffix(x.curInlineKey, "."+ev.In)) {
					x.runEvent(b, cc, ev, map[string]Val{})
				}
			}
		case *ast.SendStmt:
			v := x.eval(b, c.Value)
			x.sendEvent(b, c.Chan, v, c)
		case *ast.ExprStmt:
			x.evalMulti(b, c.X)
		case *ast.AssignStmt:
			x.assign(b, c)
		default:
			x.unsupported(cc, "select communication")
		}
		x.stmts(cc.Body, b, &inner, k)
	}
}

// isStopComm: the communication receives from a channel whose event hook sets gStop.
func (x *Exec) isStopComm(comm ast.Stmt) bool {
	var ch ast.Expr
	switch c := comm.(type) {
	case *ast.ExprStmt:
		if u, ok := ast.Unparen(c.X).(*ast.UnaryExpr); ok && u.Op == token.ARROW {
			ch = u.X
		}
	case *ast.AssignStmt:
		if len(c.Rhs) == 1 {
			if u, ok := ast.Unparen(c.Rhs[0]).(*ast.UnaryExpr); ok && u.Op == token.ARROW {
				ch = u.X
			}
		}
	}
	if ch == nil {
		return false
	}
	ev, _ := x.findEvent("recv", ch)
	if ev == nil {
		return false
	}
	for _, c := range ev.Clauses {
		if c.Kind == "effect" && c.Target == "gStop" {
			return true
		}
	}
	return false
}

// bePath is one feasible-looking path through one iteration of a loop (head to back edge).
type bePath struct {
	ord   int
	line  string
	pc    []string
	polls []poll
	trail []string
	kind  string // for: needs the stop rule; range: bounded, exempt
}

// switchStmt executes an expression switch (with or without tag) as a chain of tests.
func (x *Exec) switchStmt(s *ast.SwitchStmt, st *State, cx *Ctx, k func(*State)) {
	run := func(st *State) {
		var tag *Val
		if s.Tag != nil {
			v := x.eval(st, s.Tag)
			tag = &v
		}
		inner := *cx
		inner.onBreak = k
		var deflt *ast.CaseClause
		cur := st
		for i, cl := range s.Body.List {
			cc := cl.(*ast.CaseClause)
			if cc.List == nil {
				deflt = cc
				continue
			}
			var alts []string
			for _, e := range cc.List {
				v := x.eval(cur, e)
				if tag != nil {
					if tag.S == "Slice" || v.S != tag.S {
						x.unsupported(e, "switch case of a different sort")
						continue
					}
					alts = append(alts, app("=", tag.T, v.T))
				} else {
					alts = append(alts, v.T)
				}
			}
			for _, b := range cc.Body {
				if br, ok := b.(*ast.BranchStmt); ok && br.Tok == token.FALLTHROUGH {
					x.unsupported(br, "fallthrough")
				}
			}
			cond := or(alts...)
			taken := cur.fork()
			taken.assume(cond)
			taken.note(fmt.Sprintf("switch@%s:case%d", x.line(s), i))
			x.stmts(cc.Body, taken, &inner, k)
			cur.assume(not(cond))
		}
		cur.note(fmt.Sprintf("switch@%s:default", x.line(s)))
		if deflt != nil {
			x.stmts(deflt.Body, cur, &inner, k)
		} else {
			k(cur)
		}
	}
	if s.Init != nil {
		x.stmt(s.Init, st, cx, run)
	} else {
		run(st)
	}
}

// spawn checks the callee's precondition at a go statement.
func (x *Exec) spawn(st *State, s *ast.GoStmt) {
	e := s.Call
	var obj types.Object
	switch f := ast.Unparen(e.Fun).(type) {
	case *ast.Ident:
		obj = x.info().Uses[f]
	case *ast.SelectorExpr:
		obj = x.info().Uses[f.Sel]
	}
	// A goroutine without contract: its body is not verified (listed as an assumption) - unless
	// it operates on a channel the ghost accounting of this goroutine watches. The ghost state
	// is sequential per goroutine; a delivery made by another goroutine at an undetermined
	// moment is outside every proof that rests on it.
	seenFn := map[*FuncInfo]bool{}
	hookedCall := func(cs []*Clause, name, what, who string) {
		var tags []string
		for _, c := range cs {
			for _, tg := range c.Tags {
				if !hasTag(tags, tg) {
					tags = append(tags, tg)
				}
			}
		}
		if len(tags) == 0 {
			return
		}
		x.broken(st, "ownership", fmt.Sprintf("go[%d:%s]:%s-in-a-goroutine-without-contract", x.ordinal(s), who, name), tags,
			fmt.Sprintf("%s is made by the goroutine started here (%s), which has no contract: its order relative to this goroutine's operations is undetermined", what, who))
	}
	var scanBody func(body ast.Node, who string, depth int)
	scanBody = func(body ast.Node, who string, depth int) {
		ast.Inspect(body, func(n ast.Node) bool {
			var ch ast.Expr
			kind := ""
			switch t := n.(type) {
			case *ast.SendStmt:
				ch, kind = t.Chan, "send"
			case *ast.UnaryExpr:
				if t.Op == token.ARROW {
					ch, kind = t.X, "recv"
				}
			case *ast.RangeStmt:
				if chanElem(x.info().TypeOf(t.X)) != nil {
					ch, kind = t.X, "recv"
				}
			case *ast.CallExpr:
				if id, ok := t.Fun.(*ast.Ident); ok && id.Name == "close" && len(t.Args) == 1 {
					ch, kind = t.Args[0], "close"
				} else if fn := x.staticCallee(t); fn != nil {
					if fn.Pkg() != nil && fn.Pkg().Path() == x.fn.pkgPath() {
						if g := x.prog.funcs[funcKeyOf(fn)]; g != nil && g.decl.Body != nil && x.sp.Funcs[funcKeyOf(fn)] == nil && !seenFn[g] && depth < 3 {
							seenFn[g] = true
							scanBody(g.decl.Body, who, depth+1)
						}
					}
					// a call the ghost accounting watches (Release, Handle, the divider, Sleep ...)
					if cev := x.findCallEvent(funcKeyOf(fn)); cev != nil && len(cev.Clauses) > 0 {
						hookedCall(cev.Clauses, "call-"+sane(lastName(funcKeyOf(fn))), "call of "+funcKeyOf(fn), who)
					}
				} else if ft := x.info().TypeOf(t.Fun); ft != nil {
					if _, isSig := ft.Underlying().(*types.Signature); isSig {
						if n, ok := types.Unalias(ft).(*types.Named); ok && n.Obj().Pkg() != nil {
							fts := x.sp.FuncTypes[n.Obj().Pkg().Path()+"."+n.Obj().Name()]
							if fts == nil {
								fts = x.sp.FuncTypes[x.fn.pkgPath()+"."+n.Obj().Name()]
							}
							if fts != nil {
								var req []*Clause
								for _, c := range fts.Clauses {
									if c.Kind == "requires" {
										req = append(req, c)
									}
								}
								if cev := x.findCallEvent("functype " + n.Obj().Name()); cev != nil {
									req = append(req, cev.Clauses...)
								}
								if len(req) > 0 {
									hookedCall(req, "call-functype-"+sane(n.Obj().Name()), "call through a value of function type "+n.Obj().Name(), who)
								}
							}
						}
					}
				}
			}
			if ch != nil {
				if ev, _ := x.findEvent(kind, ch); ev != nil && len(ev.Clauses) > 0 {
					var tags []string
					for _, c := range ev.Clauses {
						for _, tg := range c.Tags {
							if !hasTag(tags, tg) {
								tags = append(tags, tg)
							}
						}
					}
					x.broken(st, "ownership", fmt.Sprintf("go[%d:%s]:%s-%s-in-a-goroutine-without-contract", x.ordinal(s), who, kind, sane(types.ExprString(ch))), tags,
						fmt.Sprintf("%s %s is performed by the goroutine started here (%s), which has no contract: its order relative to this goroutine's operations is undetermined", kind, types.ExprString(ch), who))
				}
			}
			return true
		})
	}
	if lit, isLit := ast.Unparen(e.Fun).(*ast.FuncLit); isLit {
		// an anonymous goroutine: its body runs elsewhere and is not verified (listed as an
		// assumption); hooked channel operations in it are ownership obligations that fail
		scanBody(lit.Body, "func-literal", 0)
		if lit.Type.Params == nil || len(lit.Type.Params.List) == 0 {
			x.goroutineBody(st, s, lit)
		} else {
			x.anonGoroutines = append(x.anonGoroutines, x.fn.name()+" line "+x.line(s))
		}
		st.note("go func literal")
		return
	}
	fn, ok := obj.(*types.Func)
	if !ok {
		x.unsupported(s, "go statement with a non-static callee")
		return
	}
	key := funcKeyOf(fn)
	spec := x.sp.Funcs[key]
	fi := x.prog.funcs[key]
	if spec == nil && fi != nil && fi.decl.Body != nil {
		seenFn[fi] = true
		scanBody(fi.decl.Body, lastName(key), 0)
		x.anonGoroutines = append(x.anonGoroutines, x.fn.name()+" line "+x.line(s)+" (go "+lastName(key)+")")
		st.note("go " + lastName(key) + " (no contract)")
		return
	}
	if spec == nil || fi == nil {
		x.unsupported(s, "go "+key+" which has no contract")
		return
	}
	var args []Val
	if sel, ok := ast.Unparen(e.Fun).(*ast.SelectorExpr); ok && fn.Type().(*types.Signature).Recv() != nil {
		args = append(args, x.eval(st, sel.X))
	}
	for _, a := range e.Args {
		args = append(args, x.eval(st, a))
	}
	binds := map[string]Val{}
	for i, n := range fi.paramNames() {
		if i < len(args) {
			binds[n] = args[i]
		}
	}
	env := &SEnv{x: x, st: st, binds: binds, pkg: keyPkg(key)}
	n := 0
	for _, c := range spec.Clauses {
		if c.Kind != "requires" || !c.relevant(x.prop) || c.Label == "ghost-initial-state" {
			// the ghost state of a goroutine that does not exist yet is empty by definition
			continue
		}
		n++
		for _, p := range env.evalClause(c) {
			x.oblige(st, "requires", fmt.Sprintf("go[%d:%s]:requires:%s", x.ordinal(s), lastName(key), p.label(n)), p.tagsFor(c.Tags), p.term)
		}
	}
	st.note("go " + lastName(key))
	for _, ev := range x.sp.Events {
		if ev.Kind == "go" && ev.Pkg == x.fn.pkgPath() && ev.Pattern == shortKey(key) {
			x.runEvent(st, s, ev, binds)
		}
	}
}

// ------------------------------------------------------------------ inlining
//
// A call to a function of the package under verification that has no contract is executed
// inline (its body is symbolically executed at the call site), so that small helpers and
// extracted functions need no contract of their own.

func (x *Exec) staticCallee(e *ast.CallExpr) *types.Func {
	var obj types.Object
	fun := ast.Unparen(e.Fun)
	if ix, ok := fun.(*ast.IndexExpr); ok {
		fun = ix.X
	}
	switch f := fun.(type) {
	case *ast.Ident:
		obj = x.info().Uses[f]
	case *ast.SelectorExpr:
		obj = x.info().Uses[f.Sel]
	}
	fn, _ := obj.(*types.Func)
	return fn
}

func (x *Exec) findInlinable(s ast.Stmt, st *State) (*ast.CallExpr, *FuncInfo) {
	var found *ast.CallExpr
	var ffi *FuncInfo
	// only the statement's own expressions, not nested blocks
	var visit func(n ast.Node) bool
	pureOnly := false
	visit = func(n ast.Node) bool {
		if found != nil {
			return false
		}
		switch t := n.(type) {
		case *ast.BlockStmt, *ast.FuncLit:
			return false
		case *ast.CallExpr:
			// arguments first (evaluation order)
			for _, a := range t.Args {
				ast.Inspect(a, visit)
			}
			if found != nil {
				return false
			}
			if _, done := st.inlined[t]; done {
				return false
			}
			if fn := x.staticCallee(t); fn != nil && fn.Pkg() != nil && fn.Pkg().Path() == x.fn.pkgPath() {
				key := funcKeyOf(fn)
				if x.sp.Funcs[key] == nil {
					if fi := x.prog.funcs[key]; fi != nil && fi.decl.Body != nil && (!pureOnly || x.looksPure(fi)) {
						found, ffi = t, fi
					}
				}
			}
			return false
		}
		return true
	}
	switch t := s.(type) {
	case *ast.ExprStmt:
		ast.Inspect(t.X, visit)
	case *ast.AssignStmt:
		for _, r := range t.Rhs {
			ast.Inspect(r, visit)
		}
	case *ast.ReturnStmt:
		for _, r := range t.Results {
			ast.Inspect(r, visit)
		}
	case *ast.IfStmt:
		if t.Init == nil {
			ast.Inspect(t.Cond, visit)
		}
	case *ast.SwitchStmt:
		// calls of side-effect free helpers in the tag and the case expressions (evaluating them
		// ahead of the switch does not change anything)
		if t.Init == nil {
			pureOnly = true
			if t.Tag != nil {
				ast.Inspect(t.Tag, visit)
			}
			for _, cc := range t.Body.List {
				if c, ok := cc.(*ast.CaseClause); ok {
					for _, e := range c.List {
						ast.Inspect(e, visit)
					}
				}
			}
			pureOnly = false
		}
	case *ast.IncDecStmt:
		ast.Inspect(t.X, visit)
	case *ast.SendStmt:
		ast.Inspect(t.Value, visit)
	case *ast.DeclStmt:
		ast.Inspect(t, visit)
	}
	return found, ffi
}

// looksPure: the function reads only - no channel operation, no assignment to anything but its
// own locals, no call other than len/cap and conversions.
func (x *Exec) looksPure(fi *FuncInfo) bool {
	pure := true
	info := fi.pkg.TypesInfo
	local := func(e ast.Expr) bool {
		id, ok := ast.Unparen(e).(*ast.Ident)
		if !ok {
			return false
		}
		o := info.Defs[id]
		if o == nil {
			o = info.Uses[id]
		}
		return o != nil && o.Parent() != nil && o.Parent() != fi.pkg.Types.Scope() && o.Pos() >= fi.decl.Pos() && o.Pos() <= fi.decl.End()
	}
	ast.Inspect(fi.decl.Body, func(n ast.Node) bool {
		switch t := n.(type) {
		case *ast.SendStmt, *ast.GoStmt, *ast.DeferStmt, *ast.SelectStmt, *ast.FuncLit:
			pure = false
		case *ast.UnaryExpr:
			if t.Op == token.ARROW || t.Op == token.AND {
				pure = false
			}
		case *ast.AssignStmt:
			for _, l := range t.Lhs {
				if !local(l) {
					pure = false
				}
			}
		case *ast.IncDecStmt:
			if !local(t.X) {
				pure = false
			}
		case *ast.CallExpr:
			if tv, ok := info.Types[t.Fun]; ok && tv.IsType() {
				return true
			}
			if id, ok := t.Fun.(*ast.Ident); ok {
				if _, isB := info.Uses[id].(*types.Builtin); isB && (id.Name == "len" || id.Name == "cap" || id.Name == "min" || id.Name == "max") {
					return true
				}
			}
			pure = false
		}
		return true
	})
	return pure
}

func (x *Exec) inline(call *ast.CallExpr, fi *FuncInfo, st *State, k func(*State, []Val)) {
	if x.inlineDepth >= 4 {
		x.unsupported(call, "inlining too deep (recursion?) at "+fi.name())
		return
	}
	// ordinals of the callee's nodes
	if _, ok := x.ords[fi.decl]; !ok {
		cnt := map[string]int{}
		ast.Inspect(fi.decl, func(n ast.Node) bool {
			if n == nil {
				return true
			}
			kk := fmt.Sprintf("%T", n)
			switch n.(type) {
			case *ast.ForStmt, *ast.RangeStmt:
				kk = "loop"
			case *ast.AssignStmt, *ast.IncDecStmt:
				kk = "assign"
			}
			x.ords[n] = 1000*(len(x.inlinedFuncs)+1) + cnt[kk]
			cnt[kk]++
			return true
		})
		x.inlinedFuncs = append(x.inlinedFuncs, fi.name())
		x.inlinedKeys = append(x.inlinedKeys, fi.key)
	}
	sig := fi.obj.Type().(*types.Signature)
	var args []Val
	if sig.Recv() != nil {
		if sel, ok := ast.Unparen(call.Fun).(*ast.SelectorExpr); ok {
			args = append(args, x.eval(st, sel.X))
		}
	}
	for i, a := range call.Args {
		if pre, ok := st.preArgs[call]; ok && i < len(pre) {
			args = append(args, pre[i])
			continue
		}
		args = append(args, x.eval(st, a))
	}
	// bind parameters (objects of the callee's declaration)
	i := 0
	bind := func(fl *ast.FieldList) {
		if fl == nil {
			return
		}
		for _, f := range fl.List {
			if len(f.Names) == 0 {
				i++
			}
			for _, n := range f.Names {
				if o, ok := x.info().Defs[n].(*types.Var); ok && i < len(args) {
					v := args[i]
					v.G = o.Type()
					st.vars[o] = v
				}
				i++
			}
		}
	}
	bind(fi.decl.Recv)
	bind(fi.decl.Type.Params)
	if sig.Variadic() {
		x.unsupported(call, "inlining a variadic function")
		return
	}
	savedSpec, savedDefers := x.spec, st.defers
	savedInlineEntry := st.inlineEntry
	st.inlineEntry = nil
	st.inlineEntry = st.fork()
	empty := &FuncSpec{Loops: map[int]*LoopSpec{}, Wraps: map[string]bool{}, Assumed: map[string]bool{}}
	x.spec = empty
	savedInlineKey := x.curInlineKey
	x.curInlineKey = fi.key
	x.inlineDepth++
	st.defers = nil
	st.note("inline " + fi.name())
	ret := func(st *State, res []Val) {
		x.runDefers(st, len(st.defers)-1, func(st *State) {
			st.defers = savedDefers
			st.inlineEntry = savedInlineEntry
			x.spec = savedSpec
			x.curInlineKey = savedInlineKey
			x.inlineDepth--
			st.note("end-inline")
			k(st, res)
			x.inlineDepth++
			x.spec = empty
			x.curInlineKey = fi.key
		})
	}
	cx := &Ctx{onReturn: ret}
	x.stmts(fi.decl.Body.List, st, cx, func(st *State) { ret(st, nil) })
	x.inlineDepth--
	x.spec = savedSpec
	x.curInlineKey = savedInlineKey
}

// ------------------------------------------------------------------ loops

type modSet struct {
	locals map[types.Object]bool
	whole  map[string]bool // heap components havocked entirely
	sx     []*SX           // targets in spec form evaluated in the pre-loop state
	binds  []map[string]Val
	ghosts map[string]bool
	bad    []string
}

func (x *Exec) loop(s ast.Stmt, st *State, cx *Ctx, k func(*State)) {
	ord := x.ordinal(s)
	var lspec *LoopSpec
	if x.spec != nil {
		lspec = x.spec.Loops[ord]
		if ord >= 1000 {
			// a loop of an inlined function: if that function has a contract that went stale (its
			// signature changed), its loop invariants still belong to this loop
			lspec = nil
			if i := ord/1000 - 1; i < len(x.inlinedKeys) {
				if fs := x.sp.Stale[x.inlinedKeys[i]]; fs != nil {
					lspec = fs.Loops[ord%1000]
				}
			}
			// a loop that was extracted into a helper: the function under verification has a loop
			// contract that matches none of its own loops any more - it goes with the helper's loop
			if lspec == nil && x.topSpec != nil {
				if k, ok := x.adopted[s]; ok {
					lspec = x.topSpec.Loops[k]
				} else {
					var ks []int
					for k := range x.topSpec.Loops {
						if k >= x.ownLoops {
							ks = append(ks, k)
						}
					}
					sort.Ints(ks)
					for _, k := range ks {
						taken := false
						for _, k2 := range x.adopted {
							if k2 == k {
								taken = true
							}
						}
						if !taken {
							if x.adopted == nil {
								x.adopted = map[ast.Stmt]int{}
							}
							x.adopted[s] = k
							lspec = x.topSpec.Loops[k]
							fmt.Printf("NOTE %s: the contract of loop %d goes with the loop at %s of a helper executed inline\n", x.fn.name(), k, x.line(s))
							break
						}
					}
				}
			}
		}
	}
	var body *ast.BlockStmt
	var forS *ast.ForStmt
	var rng *ast.RangeStmt
	switch l := s.(type) {
	case *ast.ForStmt:
		forS, body = l, l.Body
	case *ast.RangeStmt:
		rng, body = l, l.Body
	}
	run := func(st *State) {
		hidden := map[string]Val{}
		var rangeVal Val
		kind := ""
		if rng != nil {
			rt := x.info().TypeOf(rng.X)
			switch u := types.Unalias(rt).Underlying().(type) {
			case *types.Slice:
				kind = "slice"
				rangeVal = x.eval(st, rng.X)
				hidden["$i"] = Val{T: "0", S: "Int"}
			case *types.Basic:
				if u.Info()&types.IsInteger == 0 {
					x.unsupported(s, "range over "+rt.String())
				}
				kind = "int"
				rangeVal = x.eval(st, rng.X)
				hidden["$i"] = Val{T: "0", S: "Int"}
			case *types.Map:
				kind = "map"
				rangeVal = x.eval(st, rng.X)
				hidden["$visited"] = Val{T: "((as const (Array Int Bool)) false)", S: "(Array Int Bool)"}
				if x.w.sortOf(u.Elem()) == "Int" {
					d, v, _, _ := x.mapParts(st, rangeVal)
					st.assume(app("=", app("msumR", d, v, hidden["$visited"].T), "0"))
				}
			case *types.Chan:
				kind = "chan"
			default:
				x.unsupported(s, "range over "+rt.String())
			}
		}
		// a counted loop "for id := start; ...; id++" also has an iteration index $i = id - start
		var counter types.Object
		var counterStart string
		if forS != nil && forS.Init != nil && forS.Post != nil {
			if as, ok := forS.Init.(*ast.AssignStmt); ok && as.Tok == token.DEFINE && len(as.Lhs) == 1 {
				if id, ok := as.Lhs[0].(*ast.Ident); ok {
					if inc, ok := forS.Post.(*ast.IncDecStmt); ok && inc.Tok == token.INC {
						if pid, ok := inc.X.(*ast.Ident); ok && pid.Name == id.Name {
							if o := x.info().Defs[id]; o != nil {
								if v, ok := st.vars[o]; ok && v.S == "Int" {
									counter, counterStart = o, v.T
								}
							}
						}
					}
				}
			}
		}
		envAt := func(st *State, hid map[string]Val) *SEnv {
			b := map[string]Val{}
			for k, v := range st.loopBinds {
				b[k] = v
			}
			for k, v := range hid {
				b[k] = v
			}
			if counter != nil {
				if v, ok := st.vars[counter]; ok {
					b["$i"] = Val{T: app("-", v.T, counterStart), S: "Int"}
				}
			}
			if kind == "slice" || kind == "int" || kind == "map" {
				b["$range"] = rangeVal
			}
			old := x.entry
			if ord >= 1000 && st.inlineEntry != nil {
				old = st.inlineEntry
			}
			return &SEnv{x: x, st: st, old: old, binds: b, pkg: x.fn.pkgPath(), own: true, pos: body.Lbrace + 1}
		}
		var invs []*Clause
		if lspec != nil {
			for _, c := range lspec.Clauses {
				if c.Kind == "invariant" && c.relevant(x.prop) {
					invs = append(invs, c)
				}
			}
		}
		// an invariant that cannot be evaluated on this tree (it names a local variable that was
		// removed) is neither assumed nor proved: it is an obligation that fails
		invIdx := make([]int, len(invs))
		droppedInv := false
		{
			var live []*Clause
			var liveIdx []int
			for i, c := range invs {
				n0 := len(x.errs)
				envAt(st.fork(), hidden).evalClause(c)
				if len(x.errs) > n0 {
					msg := x.errs[n0]
					x.errs = x.errs[:n0]
					lab := c.Label
					if lab == "" {
						lab = fmt.Sprint(i + 1)
					}
					q := &Query{Ob: x.fn.name() + "#" + fmt.Sprintf("loop[%d]:inv-entry:%s", ord, lab), Kind: "invariant", Func: x.fn.name(), Tags: c.Tags,
						Goal: "false", Expect: "unsat", Params: x.params, Broken: msg}
					q.Trail = st.trail[:len(st.trail):len(st.trail)]
					x.qs = append(x.qs, q)
					droppedInv = true
					continue
				}
				live = append(live, c)
				liveIdx = append(liveIdx, i)
			}
			invs, invIdx = live, liveIdx
		}
		checkInvs := func(st *State, hid map[string]Val, when string) {
			env := envAt(st, hid)
			for i, c := range invs {
				for _, p := range env.evalClause(c) {
					x.oblige(st, "invariant", fmt.Sprintf("loop[%d]:%s:%s", ord, when, p.label(invIdx[i]+1)), p.tagsFor(c.Tags), p.term)
				}
			}
		}
		if es, _ := x.elemSort(rangeVal); kind == "slice" && es == "Int" {
			a := x.arrComp(st, "Int")
			st.assume(app("=", app("lsum", app("sl_off", rangeVal.T), "0", app("select", a.T, app("sl_arr", rangeVal.T))), "0"))
			st.assume(app("=", app("pset", app("select", a.T, app("sl_arr", rangeVal.T)), app("sl_off", rangeVal.T), "0"), "((as const (Array Int Bool)) false)"))
		}
		// a counted loop "for i := 0; i < len(s); i++" over an integer slice gets the same facts
		// about the list sum / element set of s as "for i := range s"
		countedSlice := func(s2 *State) (Val, bool) {
			if forS == nil || counter == nil || forS.Cond == nil {
				return Val{}, false
			}
			be, ok := ast.Unparen(forS.Cond).(*ast.BinaryExpr)
			if !ok || be.Op != token.LSS || !x.countedAndBounded(forS, counter) {
				return Val{}, false
			}
			call, ok := ast.Unparen(be.Y).(*ast.CallExpr)
			if !ok || len(call.Args) != 1 {
				return Val{}, false
			}
			if id, ok := call.Fun.(*ast.Ident); !ok || id.Name != "len" {
				return Val{}, false
			}
			x.mute = true
			n0 := len(x.errs)
			sv := x.eval(s2.fork(), call.Args[0])
			x.mute = false
			if len(x.errs) > n0 || sv.S != "Slice" {
				x.errs = x.errs[:n0]
				return Val{}, false
			}
			if es, _ := x.elemSort(sv); es != "Int" {
				return Val{}, false
			}
			return sv, true
		}
		if sv, ok := countedSlice(st); ok {
			a := x.arrComp(st, "Int")
			st.assume(app("=", app("lsum", app("sl_off", sv.T), "0", app("select", a.T, app("sl_arr", sv.T))), "0"))
			st.assume(app("=", app("pset", app("select", a.T, app("sl_arr", sv.T)), app("sl_off", sv.T), "0"), "((as const (Array Int Bool)) false)"))
		}
		checkInvs(st, hidden, "inv-entry")
		// havoc
		ms := x.modAnalysis(s, st)
		if len(ms.bad) > 0 {
			for _, b := range ms.bad {
				x.unsupported(s, b)
			}
		}
		// automatic invariants: a channel cached in a local / parameter that the loop does not assign
		// still is what the expression it was read from yields (checked at entry and at the back
		// edge like any invariant; it lets the event hooks recognise the cached channel inside the loop)
		type autoInv struct {
			obj types.Object
			val Val
		}
		var autos []autoInv
		{
			var objs []types.Object
			for o, v := range st.vars {
				if v.Org == nil || ms.locals[o] {
					continue
				}
				if _, isChan := types.Unalias(o.Type()).Underlying().(*types.Chan); isChan {
					objs = append(objs, o)
				}
			}
			sort.Slice(objs, func(a, b int) bool { return objs[a].Pos() < objs[b].Pos() })
			for _, o := range objs {
				autos = append(autos, autoInv{o, st.vars[o]})
				x.oblige(st, "invariant", fmt.Sprintf("loop[%d]:auto-entry:%s", ord, o.Name()), []string{"*"}, x.originHolds(st, st.vars[o]))
			}
		}
		pre := st.fork()
		h := st
		var locs []types.Object
		for o := range ms.locals {
			locs = append(locs, o)
		}
		sort.Slice(locs, func(a, b int) bool { return locs[a].Pos() < locs[b].Pos() })
		for _, o := range locs {
			if _, ok := h.vars[o]; ok {
				h.vars[o] = x.freshVal(h, "lp_"+o.Name(), o.Type())
			}
		}
		for _, name := range sortedKeys(ms.whole) {
			if cur, ok := h.heap[name]; ok {
				h.heap[name] = Val{T: x.freshConst("lp_"+name, cur.S), S: cur.S}
				h.wrote(name, "*", "true")
			}
		}
		for _, g := range sortedKeys(ms.ghosts) {
			if d := (&SEnv{x: x, st: h, pkg: x.fn.pkgPath()}).ghostDecl(g); d != nil {
				h.heap["g_"+g] = Val{T: x.freshConst("lp_g_"+g, d.Sort), S: d.Sort}
			}
		}
		for i, t := range ms.sx {
			envp := &SEnv{x: x, st: pre, binds: ms.binds[i], pkg: x.fn.pkgPath(), own: true, pos: body.Lbrace + 1}
			x.havocTarget(h, envp, t)
		}
		nr := x.freshConst("nextref", "Int")
		h.assume(app(">=", nr, h.nextref))
		h.nextref = nr
		x.bumpPolls(h)
		hid := map[string]Val{}
		for _, k2 := range []string{"$i", "$visited"} {
			if v, ok := hidden[k2]; ok {
				c := x.freshConst("lp"+sane(k2), v.S)
				hid[k2] = Val{T: c, S: v.S}
			}
		}
		if kind == "slice" {
			h.assume(and(app("<=", "0", hid["$i"].T), app("<=", hid["$i"].T, app("sl_len", rangeVal.T))))
		}
		if kind == "int" {
			h.assume(and(app("<=", "0", hid["$i"].T), app("<=", hid["$i"].T, rangeVal.T)))
		}
		env := envAt(h, hid)
		for _, c := range invs {
			for _, p := range env.evalClause(c) {
				h.assume(p.term)
			}
		}
		for _, a := range autos {
			h.assume(x.originHolds(h, a.val))
		}
		// a counted loop "for id := start; id < bound; id++" whose body assigns neither id nor
		// anything the bound is made of: at the head id <= bound, or nothing was iterated
		// (id == start). Checked at the back edge like the other automatic invariants.
		counterInv := func(s2 *State) string { return "true" }
		if forS != nil && counter != nil && x.countedAndBounded(forS, counter) {
			if be, ok := ast.Unparen(forS.Cond).(*ast.BinaryExpr); ok {
				counterInv = func(s2 *State) string {
					cv, ok := s2.vars[counter]
					if !ok {
						return "true"
					}
					x.mute = true
					n0 := len(x.errs)
					b := x.eval(s2.fork(), be.Y)
					x.mute = false
					if len(x.errs) > n0 || b.S != "Int" {
						x.errs = x.errs[:n0]
						return "true"
					}
					lim := b.T
					if be.Op == token.LEQ {
						lim = app("+", b.T, "1")
					}
					return and(app(">=", cv.T, counterStart), or(app("<=", cv.T, lim), app("=", cv.T, counterStart)))
				}
				h.assume(counterInv(h))
			}
		}
		if len(invs) == 0 && len(autos) == 0 {
			h.weak = true
		}
		if droppedInv {
			h.brokenInv = true
		}
		h.note(fmt.Sprintf("loop[%d]@%s:head", ord, x.line(s)))
		outerPolls := h.polls
		h.polls = nil
		// condition / iteration split
		exit := h.fork()
		iter := h
		post := func(h map[string]Val) {} // advance hidden state
		switch {
		case forS != nil:
			if forS.Cond != nil {
				c := x.eval(iter, forS.Cond)
				iter.assume(c.T)
				c2 := x.eval(exit, forS.Cond)
				exit.assume(not(c2.T))
				if sv, ok := countedSlice(iter); ok {
					if cv, ok := iter.vars[counter]; ok {
						a := x.arrComp(iter, "Int")
						inner := app("select", a.T, app("sl_arr", sv.T))
						off := app("sl_off", sv.T)
						i := app("-", cv.T, counterStart) // the definitions below hold for every index >= 0
						iter.assume(app(">=", i, "0"))
						iter.assume(app("=", app("pset", inner, off, app("+", i, "1")), app("store", app("pset", inner, off, i), app("select", inner, app("at", off, i)), "true")))
						iter.assume(app("=", app("pset", inner, off, "0"), "((as const (Array Int Bool)) false)"))
						exit.assume(app("=", app("pset", inner, off, "0"), "((as const (Array Int Bool)) false)"))
						iter.assume(app("=", app("lsum", off, "0", inner), "0"))
						iter.assume(app("=", app("lsum", off, app("+", i, "1"), inner), app("+", app("lsum", off, i, inner), app("select", inner, app("at", off, i)))))
						exit.assume(app("=", app("lsum", off, "0", inner), "0"))
					}
				}
			} else {
				exit = nil
			}
		case kind == "slice" || kind == "int":
			bound := rangeVal.T
			if kind == "slice" {
				bound = app("sl_len", rangeVal.T)
			}
			iter.assume(app("<", hid["$i"].T, bound))
			exit.assume(app(">=", hid["$i"].T, bound))
			if rng.Key != nil {
				kt := x.info().TypeOf(rng.Key)
				x.assignTo(iter, rng.Key, Val{T: hid["$i"].T, S: "Int", G: kt})
			}
			if es, _ := x.elemSort(rangeVal); kind == "slice" && es == "Int" {
				a := x.arrComp(iter, "Int")
				inner := app("select", a.T, app("sl_arr", rangeVal.T))
				off := app("sl_off", rangeVal.T)
				i := hid["$i"].T
				iter.assume(app("=", app("pset", inner, off, app("+", i, "1")), app("store", app("pset", inner, off, i), app("select", inner, app("at", off, i)), "true")))
				iter.assume(app("=", app("pset", inner, off, "0"), "((as const (Array Int Bool)) false)"))
				exit.assume(app("=", app("pset", inner, off, "0"), "((as const (Array Int Bool)) false)"))
				iter.assume(app("=", app("lsum", off, "0", inner), "0"))
				iter.assume(app("=", app("lsum", off, app("+", i, "1"), inner), app("+", app("lsum", off, i, inner), app("select", inner, app("at", off, i)))))
				exit.assume(app("=", app("lsum", off, "0", inner), "0"))
			}
			if rng.Value != nil && kind == "slice" {
				v := x.sliceAt(iter, rangeVal, hid["$i"].T)
				x.assumeWellTyped(iter, v)
				x.assignTo(iter, rng.Value, v)
			}
		case kind == "map":
			d, v, vs, vt := x.mapParts(iter, rangeVal)
			S := hid["$visited"].T
			key := x.freshConst("rk", "Int")
			if !x.insertsIntoRanged(rng) {
				// keys already produced were present when the loop started
				dp, _, _, _ := x.mapParts(pre, rangeVal)
				fact := fmt.Sprintf("(forall ((k Int)) (! (=> (select %s k) (select %s k)) :pattern ((select %s k))))", S, dp, S)
				iter.assume(fact)
				exit.assume(fact)
			}
			x.nilMapFacts(iter, rangeVal, d, v, vs, key)
			x.nilMapFacts(exit, rangeVal, d, v, vs, "")
			kt := types.Unalias(x.info().TypeOf(rng.X)).Underlying().(*types.Map).Key()
			iter.assume(and(app("select", d, key), not(app("select", S, key)), inRange(key, kt)))
			de, _, _, _ := x.mapParts(exit, rangeVal)
			exit.assume(fmt.Sprintf("(forall ((k Int)) (! (=> (select %s k) (select %s k)) :pattern ((select %s k))))", de, S, de))
			if vs == "Int" {
				_, ve, _, _ := x.mapParts(exit, rangeVal)
				iter.assume(app("<=", app("msumR", d, v, S), app("msum", d, v)))
				exit.assume(app("=", app("msumR", de, ve, S), app("msum", de, ve)))
				// L_zero and its converse for the ranged map
				exit.assume(fmt.Sprintf("(=> (forall ((k Int)) (=> (select %s k) (= (nn (select %s k)) 0))) (= (msum %s %s) 0))", de, ve, de, ve))
				exit.assume(fmt.Sprintf("(=> (= (msum %s %s) 0) (forall ((k Int)) (! (=> (select %s k) (<= (select %s k) 0)) :pattern ((select %s k)))))", de, ve, de, ve, ve))
			}
			kv := Val{T: key, S: "Int", G: kt}
			if rng.Key != nil {
				x.assignTo(iter, rng.Key, kv)
			}
			val := Val{T: app("select", v, key), S: vs, G: vt}
			x.assumeWellTyped(iter, val)
			if rng.Value != nil {
				x.assignTo(iter, rng.Value, val)
			}
			nS := app("store", S, key, "true")
			if vs == "Int" {
				iter.assume(app("=", app("msumR", d, v, nS), app("+", app("msumR", d, v, S), app("nn", val.T))))
				iter.assume(app(">=", app("msum", d, v), app("nn", val.T)))
				iter.assume(app("<=", app("msumR", d, v, nS), app("msum", d, v)))
			}
			iter.ghostTmp = map[string]Val{"$key": kv}
			hidNext := nS
			post = func(h map[string]Val) { h["$visited"] = Val{T: hidNext, S: "(Array Int Bool)"} }
		case kind == "chan":
			v, ok := x.recvEvent(iter, rng.X, rng)
			exit = iter.fork()
			exit.assume(not(ok.T))
			iter.assume(ok.T)
			if rng.Key != nil {
				x.assignTo(iter, rng.Key, v)
			}
		}
		lkind := "range"
		if (forS != nil && !x.countedAndBounded(forS, counter)) || kind == "chan" {
			lkind = "for"
		}
		kOuter := k
		k = func(st *State) {
			// leaving the loop: back in the enclosing iteration
			st.polls = append(outerPolls[:len(outerPolls):len(outerPolls)], st.polls...)
			kOuter(st)
		}
		if exit != nil {
			exit.note(fmt.Sprintf("loop[%d]:exit", ord))
			k(exit)
		}
		back := func(st *State) {
			hid2 := map[string]Val{}
			for k2, v := range hid {
				hid2[k2] = v
			}
			if forS != nil && forS.Post != nil {
				x.stmt(forS.Post, st, cx, func(*State) {})
			}
			if kind == "slice" || kind == "int" {
				hid2["$i"] = Val{T: app("+", hid["$i"].T, "1"), S: "Int"}
			}
			post(hid2)
			st.ghostTmp = nil
			x.bePaths = append(x.bePaths, &bePath{ord: ord, line: x.line(s), pc: st.pc[:len(st.pc):len(st.pc)], polls: st.polls[:len(st.polls):len(st.polls)],
				trail: st.trail[:len(st.trail):len(st.trail)], kind: lkind})
			checkInvs(st, hid2, "inv-preserved")
			for _, a := range autos {
				x.oblige(st, "invariant", fmt.Sprintf("loop[%d]:auto-preserved:%s", ord, a.obj.Name()), []string{"*"}, x.originHolds(st, a.val))
			}
			if ci := counterInv(st); ci != "true" {
				x.oblige(st, "invariant", fmt.Sprintf("loop[%d]:auto-preserved:counter-within-bound", ord), []string{"*"}, ci)
			}
			x.paths++
		}
		// the enclosing loop's index and range value stay visible to the invariants of nested loops
		{
			lb := map[string]Val{}
			for k2, v := range iter.loopBinds {
				lb[k2] = v
			}
			if v, ok := envAt(iter, hid).binds["$i"]; ok {
				lb[fmt.Sprintf("$i%d", ord)] = v
			}
			if kind == "slice" || kind == "int" || kind == "map" {
				lb[fmt.Sprintf("$range%d", ord)] = rangeVal
			}
			iter.loopBinds = lb
		}
		inner := &Ctx{onReturn: cx.onReturn, onBreak: k, onContinue: back}
		iter.note(fmt.Sprintf("loop[%d]:iteration", ord))
		x.stmts(body.List, iter, inner, back)
	}
	if forS != nil && forS.Init != nil {
		x.stmt(forS.Init, st, cx, run)
	} else {
		run(st)
	}
}

// countedAndBounded: "for i := a; i < b; i++" whose body assigns neither i nor anything b is
// made of - such a loop ends after b-a iterations like "for range b-a" does (C16, rule SE
// looks at unbounded loops only).
func (x *Exec) countedAndBounded(forS *ast.ForStmt, counter types.Object) bool {
	if counter == nil || forS.Cond == nil {
		return false
	}
	be, ok := ast.Unparen(forS.Cond).(*ast.BinaryExpr)
	if !ok || (be.Op != token.LSS && be.Op != token.LEQ) {
		return false
	}
	id, ok := ast.Unparen(be.X).(*ast.Ident)
	if !ok || x.info().Uses[id] != counter {
		return false
	}
	// the bound: identifiers, field selections and literals only
	boundObjs := map[types.Object]bool{}
	boundFields := map[string]bool{}
	pure := true
	ast.Inspect(be.Y, func(n ast.Node) bool {
		switch t := n.(type) {
		case *ast.Ident:
			if o := x.info().Uses[t]; o != nil {
				boundObjs[o] = true
			}
		case *ast.SelectorExpr:
			boundFields[t.Sel.Name] = true
		case *ast.BasicLit, *ast.ParenExpr, *ast.BinaryExpr:
		case *ast.CallExpr:
			if f, ok := t.Fun.(*ast.Ident); !ok || (f.Name != "len" && f.Name != "uint" && f.Name != "int") {
				pure = false
			}
		default:
			if n != nil {
				pure = false
			}
		}
		return true
	})
	if !pure {
		return false
	}
	ok = true
	ast.Inspect(forS.Body, func(n ast.Node) bool {
		var lhs []ast.Expr
		switch t := n.(type) {
		case *ast.AssignStmt:
			lhs = t.Lhs
		case *ast.IncDecStmt:
			lhs = []ast.Expr{t.X}
		case *ast.UnaryExpr:
			if t.Op == token.AND {
				lhs = []ast.Expr{t.X}
			}
		}
		for _, l := range lhs {
			switch t := ast.Unparen(l).(type) {
			case *ast.Ident:
				o := x.info().Uses[t]
				if o == nil {
					o = x.info().Defs[t]
				}
				if o == counter || boundObjs[o] {
					ok = false
				}
			case *ast.SelectorExpr:
				if boundFields[t.Sel.Name] {
					ok = false
				}
			case *ast.IndexExpr, *ast.StarExpr:
				// writes through pointers / into containers do not change a local or a field named in the bound
			}
		}
		return true
	})
	return ok
}

// modAnalysis computes what a loop may modify.
func (x *Exec) modAnalysis(loop ast.Stmt, st *State) *modSet {
	ms := &modSet{locals: map[types.Object]bool{}, whole: map[string]bool{}, ghosts: map[string]bool{}}
	info := x.info()
	assigned := map[types.Object]bool{}
	fieldsAssigned := map[string]bool{}
	// first pass: locals and fields assigned
	ast.Inspect(loop, func(n ast.Node) bool {
		var lhs []ast.Expr
		switch s := n.(type) {
		case *ast.AssignStmt:
			lhs = s.Lhs
		case *ast.IncDecStmt:
			lhs = []ast.Expr{s.X}
		case *ast.RangeStmt:
			if s.Key != nil {
				lhs = append(lhs, s.Key)
			}
			if s.Value != nil {
				lhs = append(lhs, s.Value)
			}
		}
		for _, l := range lhs {
			switch l := ast.Unparen(l).(type) {
			case *ast.Ident:
				o := info.Defs[l]
				if o == nil {
					o = info.Uses[l]
				}
				if o != nil {
					assigned[o] = true
				}
			case *ast.SelectorExpr:
				// field of struct value held in a local: the local is assigned
				root := rootIdent(l)
				if root != nil {
					if o := info.Uses[root]; o != nil {
						if _, isPtr := types.Unalias(info.TypeOf(l.X)).Underlying().(*types.Pointer); !isPtr {
							assigned[o] = true
						} else {
							fieldsAssigned[types.ExprString(l)] = true
						}
					}
				}
			}
		}
		return true
	})
	for o := range assigned {
		ms.locals[o] = true
	}
	invariantExpr := func(e ast.Expr) bool {
		ok := true
		ast.Inspect(e, func(n ast.Node) bool {
			switch n := n.(type) {
			case *ast.Ident:
				if o := info.Uses[n]; o != nil && assigned[o] {
					ok = false
				}
				if v, isVar := info.Uses[n].(*types.Var); isVar && !v.IsField() {
					if _, bound := st.vars[v]; !bound && v.Parent() != v.Pkg().Scope() {
						ok = false
					}
				}
			case *ast.CallExpr, *ast.UnaryExpr:
				if u, isU := n.(*ast.UnaryExpr); !isU || u.Op == token.ARROW {
					ok = false
				}
			case *ast.SelectorExpr:
				if fieldsAssigned[types.ExprString(n)] {
					ok = false
				}
			}
			return ok
		})
		return ok
	}
	exprSX := func(e ast.Expr) *SX {
		sx, err := parseSX(types.ExprString(e), "loop-frame")
		if err != nil {
			return nil
		}
		return sx
	}
	addTarget := func(kind string, e ast.Expr, compWhole func() string) {
		if invariantExpr(e) {
			if sx := exprSX(e); sx != nil {
				t := sx
				if kind != "" {
					t = &SX{Op: "call", Name: kind, Args: []*SX{sx}, Pos: "loop-frame"}
				}
				ms.sx = append(ms.sx, t)
				ms.binds = append(ms.binds, nil)
				return
			}
		}
		ms.whole[compWhole()] = true
	}
	sliceSelfUpdate := func(e ast.Expr) bool {
		// e is only ever assigned append(e, ...) or e[:..] inside the loop
		name := types.ExprString(e)
		ok := true
		ast.Inspect(loop, func(n ast.Node) bool {
			as, isAs := n.(*ast.AssignStmt)
			if !isAs {
				return true
			}
			for i, l := range as.Lhs {
				if types.ExprString(l) != name || i >= len(as.Rhs) {
					continue
				}
				switch r := ast.Unparen(as.Rhs[i]).(type) {
				case *ast.CallExpr:
					if id, isID := r.Fun.(*ast.Ident); isID && id.Name == "append" && types.ExprString(r.Args[0]) == name {
						continue
					}
				case *ast.SliceExpr:
					if types.ExprString(r.X) == name {
						continue
					}
				}
				ok = false
			}
			return true
		})
		return ok
	}
	sliceTarget := func(e ast.Expr) {
		es := "Int"
		if sl, ok := types.Unalias(info.TypeOf(e)).Underlying().(*types.Slice); ok {
			es = x.w.sortOf(sl.Elem())
		}
		whole := func() string { x.arrComp(st, es); return "arr_" + sortTag(es) }
		base := ast.Unparen(e)
		// value of the slice variable before the loop (it may be re-assigned from itself)
		inv := true
		ast.Inspect(base, func(n ast.Node) bool {
			if id, ok := n.(*ast.Ident); ok {
				if o := info.Uses[id]; o != nil && assigned[o] && types.ExprString(base) != id.Name {
					inv = false
				}
			}
			if _, ok := n.(*ast.CallExpr); ok {
				inv = false
			}
			return true
		})
		if inv && sliceSelfUpdate(base) {
			if sx := exprSX(base); sx != nil {
				ms.sx = append(ms.sx, &SX{Op: "call", Name: "elems", Args: []*SX{sx}, Pos: "loop-frame"})
				ms.binds = append(ms.binds, nil)
				return
			}
		}
		ms.whole[whole()] = true
	}
	ast.Inspect(loop, func(n ast.Node) bool {
		switch s := n.(type) {
		case *ast.DeferStmt:
			ms.bad = append(ms.bad, "defer inside a loop")
		case *ast.AssignStmt, *ast.IncDecStmt:
			var lhs []ast.Expr
			if a, ok := s.(*ast.AssignStmt); ok {
				lhs = a.Lhs
			} else {
				lhs = []ast.Expr{s.(*ast.IncDecStmt).X}
			}
			for _, l := range lhs {
				switch l := ast.Unparen(l).(type) {
				case *ast.SelectorExpr:
					if _, isPtr := types.Unalias(info.TypeOf(l.X)).Underlying().(*types.Pointer); isPtr {
						nm, _ := ptrStruct(info.TypeOf(l.X))
						name := fieldComp(nm, l.Sel.Name)
						x.comp(st, name, arrayOf(x.w.sortOf(info.TypeOf(l))))
						if sx := exprSX(l); sx != nil && invariantExpr(l.X) {
							ms.sx = append(ms.sx, sx)
							ms.binds = append(ms.binds, nil)
						} else {
							ms.whole[name] = true
						}
					}
				case *ast.IndexExpr:
					bt := info.TypeOf(l.X)
					switch u := types.Unalias(bt).Underlying().(type) {
					case *types.Map:
						vs := x.w.sortOf(u.Elem())
						if invariantExpr(l.X) {
							addTarget("content", l.X, nil)
						} else {
							x.mapComps(st, vs)
							ms.whole["mdom_"+sortTag(vs)] = true
							ms.whole["mval_"+sortTag(vs)] = true
						}
					case *types.Slice:
						sliceTarget(l.X)
					}
				}
			}
		case *ast.GoStmt:
			if fn := x.staticCallee(s.Call); fn != nil {
				for _, ev := range x.sp.Events {
					if ev.Kind == "go" && ev.Pkg == x.fn.pkgPath() && ev.Pattern == shortKey(funcKeyOf(fn)) {
						x.eventGhosts(ev, ms)
					}
				}
			}
			return false // the spawned goroutine's frame is not the spawner's
		case *ast.SendStmt:
			if ev, _ := x.findEvent("send", s.Chan); ev != nil {
				x.eventGhosts(ev, ms)
			}
		case *ast.UnaryExpr:
			if s.Op == token.ARROW {
				if ev, _ := x.findEvent("recv", s.X); ev != nil {
					x.eventGhosts(ev, ms)
				}
			}
		case *ast.RangeStmt:
			if chanElem(info.TypeOf(s.X)) != nil {
				if ev, _ := x.findEvent("recv", s.X); ev != nil {
					x.eventGhosts(ev, ms)
				}
			}
		case *ast.CallExpr:
			x.callMods(s, st, ms, invariantExpr, sliceTarget)
		}
		return true
	})
	return ms
}

// insertsIntoRanged: the loop body may add keys to the map it ranges over (any write to the
// ranged map other than to the current key).
func (x *Exec) insertsIntoRanged(rng *ast.RangeStmt) bool {
	m := types.ExprString(rng.X)
	key := ""
	if id, ok := rng.Key.(*ast.Ident); ok {
		key = id.Name
	}
	found := false
	ast.Inspect(rng.Body, func(n ast.Node) bool {
		var lhs []ast.Expr
		switch s := n.(type) {
		case *ast.AssignStmt:
			lhs = s.Lhs
		case *ast.IncDecStmt:
			lhs = []ast.Expr{s.X}
		case *ast.CallExpr:
			// a callee might write the map: be conservative unless the map is a local
			if _, isLocal := rng.X.(*ast.Ident); !isLocal {
				if id, ok := s.Fun.(*ast.Ident); !ok || (id.Name != "delete" && id.Name != "append" && id.Name != "len") {
					if _, isSel := s.Fun.(*ast.SelectorExpr); isSel {
						found = true
					}
				}
			}
		}
		for _, l := range lhs {
			if ix, ok := ast.Unparen(l).(*ast.IndexExpr); ok && types.ExprString(ix.X) == m {
				if id, ok := ix.Index.(*ast.Ident); !ok || id.Name != key || key == "" {
					found = true
				}
			}
		}
		return true
	})
	return found
}

func sortedKeys(m map[string]bool) []string {
	var out []string
	for k := range m {
		out = append(out, k)
	}
	sort.Strings(out)
	return out
}

func rootIdent(e ast.Expr) *ast.Ident {
	for {
		switch t := ast.Unparen(e).(type) {
		case *ast.Ident:
			return t
		case *ast.SelectorExpr:
			e = t.X
		case *ast.IndexExpr:
			e = t.X
		default:
			return nil
		}
	}
}

func (x *Exec) eventGhosts(ev *EventSpec, ms *modSet) {
	for _, c := range ev.Clauses {
		if c.Kind == "effect-after" {
			ms.ghosts[c.Target] = true
		}
	}
	if ev.Kind == "send" || ev.Kind == "recv" {
		ms.ghosts["gClock"] = true
	}
	for _, c := range ev.Clauses {
		if c.Kind == "effect" {
			ms.ghosts[c.Target] = true
		}
	}
}

// callMods adds the frame of a call inside a loop to the loop's modified set.
func (x *Exec) callMods(e *ast.CallExpr, st *State, ms *modSet, invariantExpr func(ast.Expr) bool, sliceTarget func(ast.Expr)) {
	info := x.info()
	if tv, ok := info.Types[e.Fun]; ok && tv.IsType() {
		return
	}
	var obj types.Object
	fun := ast.Unparen(e.Fun)
	switch f := fun.(type) {
	case *ast.Ident:
		obj = info.Uses[f]
	case *ast.SelectorExpr:
		obj = info.Uses[f.Sel]
	}
	if b, ok := obj.(*types.Builtin); ok {
		switch b.Name() {
		case "append":
			sliceTarget(e.Args[0])
		case "copy":
			sliceTarget(e.Args[0])
		case "delete":
			if invariantExpr(e.Args[0]) {
				if sx, err := parseSX(types.ExprString(e.Args[0]), "loop-frame"); err == nil {
					ms.sx = append(ms.sx, &SX{Op: "call", Name: "content", Args: []*SX{sx}, Pos: "loop-frame"})
					ms.binds = append(ms.binds, nil)
					return
				}
			}
			if m, ok := types.Unalias(info.TypeOf(e.Args[0])).Underlying().(*types.Map); ok {
				vs := x.w.sortOf(m.Elem())
				x.mapComps(st, vs)
				ms.whole["mdom_"+sortTag(vs)] = true
				ms.whole["mval_"+sortTag(vs)] = true
			}
		case "close":
			if ev, _ := x.findEvent("close", e.Args[0]); ev != nil {
				x.eventGhosts(ev, ms)
			}
		}
		return
	}
	var clauses []*Clause
	var names []string
	var argExprs []ast.Expr
	if fn, ok := obj.(*types.Func); ok {
		key := funcKeyOf(fn)
		sig := fn.Type().(*types.Signature)
		if sig.Recv() != nil {
			if sel, ok := fun.(*ast.SelectorExpr); ok {
				if _, isIface := sig.Recv().Type().Underlying().(*types.Interface); isIface {
					key = ifaceKey(info.TypeOf(sel.X), fn.Name())
				}
				argExprs = append(argExprs, sel.X)
			}
		}
		argExprs = append(argExprs, e.Args...)
		if ev := x.findCallEvent(key); ev != nil {
			x.eventGhosts(ev, ms)
		}
		spec := x.sp.Funcs[key]
		if spec == nil {
			return // reported when the call is executed
		}
		clauses = spec.Clauses
		if fi := x.prog.funcs[key]; fi != nil {
			names = fi.paramNames()
		} else {
			names = spec.Params
		}
	} else if ft := info.TypeOf(e.Fun); ft != nil {
		if n, ok := types.Unalias(ft).(*types.Named); ok && n.Obj().Pkg() != nil {
			fts := x.sp.FuncTypes[n.Obj().Pkg().Path()+"."+n.Obj().Name()]
			if fts == nil {
				fts = x.sp.FuncTypes[x.fn.pkgPath()+"."+n.Obj().Name()]
			}
			if fts != nil {
				clauses, names, argExprs = fts.Clauses, fts.Params, e.Args
				if ev := x.findCallEvent("functype " + n.Obj().Name()); ev != nil {
					x.eventGhosts(ev, ms)
				}
			}
		}
	}
	for _, c := range clauses {
		if c.Kind != "modifies" {
			continue
		}
		for _, t := range c.Exprs {
			if t.Op == "id" {
				ms.ghosts[t.Name] = true
				continue
			}
			// bind parameters whose arguments are loop invariant
			binds := map[string]Val{}
			okAll := true
			used := sxIdents(t)
			for i, nme := range names {
				if !used[nme] {
					continue
				}
				if i >= len(argExprs) || !invariantExpr(argExprs[i]) {
					okAll = false
					break
				}
				scratch := st.fork()
				nq := len(x.qs)
				binds[nme] = x.eval(scratch, argExprs[i])
				x.qs = x.qs[:nq]
			}
			if okAll {
				ms.sx = append(ms.sx, t)
				ms.binds = append(ms.binds, binds)
				continue
			}
			// conservative: whole component
			switch {
			case t.Op == "call" && t.Name == "content":
				// the map changes from iteration to iteration (e.g. it is created in the loop):
				// conservatively, any map of that value sort may have changed
				vs := "Int"
				for i, nme := range names {
					if used[nme] && i < len(argExprs) {
						if m, ok := types.Unalias(info.TypeOf(argExprs[i])).Underlying().(*types.Map); ok {
							vs = x.w.sortOf(m.Elem())
						}
					}
				}
				x.mapComps(st, vs)
				ms.whole["mdom_"+sortTag(vs)] = true
				ms.whole["mval_"+sortTag(vs)] = true
			default:
				ms.bad = append(ms.bad, "loop-variant frame of callee "+t.String()+" (unsupported)")
			}
		}
	}
}

func sxIdents(e *SX) map[string]bool {
	out := map[string]bool{}
	var walk func(*SX)
	walk = func(e *SX) {
		if e.Op == "id" {
			out[e.Name] = true
		}
		for _, a := range e.Args {
			walk(a)
		}
	}
	walk(e)
	return out
}

// ------------------------------------------------------------------ function driver

func (x *Exec) computeOrdinals() {
	x.ords = map[ast.Node]int{}
	cnt := map[string]int{}
	ast.Inspect(x.fn.decl, func(n ast.Node) bool {
		if n == nil {
			return true
		}
		k := fmt.Sprintf("%T", n)
		switch n.(type) {
		case *ast.ForStmt, *ast.RangeStmt:
			k = "loop"
		case *ast.AssignStmt, *ast.IncDecStmt:
			k = "assign"
		}
		x.ords[n] = cnt[k]
		cnt[k]++
		return true
	})
	x.ownLoops = cnt["loop"]
}

// verifyFunc generates the queries of one function.
func verifyFunc(w *World, sp *Specs, prog *Program, fi *FuncInfo, spec *FuncSpec, prop string) *Exec {
	x := &Exec{w: w, sp: sp, prog: prog, fn: fi, spec: spec, topSpec: spec, prop: prop, decls: map[string]string{}}
	x.computeOrdinals()
	x.localOrd = map[types.Object]int{}
	x.usedLocals = map[string]int{}
	ast.Inspect(fi.decl, func(n ast.Node) bool {
		if id, ok := n.(*ast.Ident); ok {
			if o, ok := fi.pkg.TypesInfo.Defs[id].(*types.Var); ok && o != nil {
				if _, seen := x.localOrd[o]; !seen {
					x.localOrd[o] = len(x.localDecls)
					x.localDecls = append(x.localDecls, o)
				}
			}
		}
		return true
	})
	if spec.Trusted || fi.decl.Body == nil {
		return x
	}
	st := &State{vars: map[types.Object]Val{}, heap: map[string]Val{}}
	st.nextref = x.declare("nextref0", "Int")
	st.assume(app("<", "0", st.nextref))
	sig := fi.obj.Type().(*types.Signature)
	x.params = map[string]string{}
	if r := sig.Recv(); r != nil {
		st.vars[r] = x.freshVal(st, r.Name(), r.Type())
		x.params[r.Name()] = st.vars[r].T
		if _, isPtr := r.Type().Underlying().(*types.Pointer); isPtr {
			st.assume(not(app("=", st.vars[r].T, "0")))
		}
	}
	for i := 0; i < sig.Params().Len(); i++ {
		p := sig.Params().At(i)
		st.vars[p] = x.freshVal(st, p.Name(), p.Type())
		x.params[p.Name()] = st.vars[p].T
	}
	x.entry = st.fork()
	x.observe = x.observations(st, sig)
	env := &SEnv{x: x, st: st, binds: map[string]Val{}, pkg: fi.pkgPath(), own: true, pos: fi.decl.Body.Lbrace + 1, entryParams: true}
	for _, c := range spec.Clauses {
		if c.Kind == "requires" && c.relevant(prop) {
			parts, bad := x.tryClause(env, c)
			if bad != "" {
				fmt.Printf("NOTE precondition of %s cannot be evaluated and is not assumed: %s\n", fi.name(), bad)
				continue
			}
			for _, p := range parts {
				st.assume(p.term)
			}
		}
	}
	// heap components touched by the preconditions exist in the entry snapshot too
	x.entry = st.fork()
	// vacuity: the precondition must be satisfiable
	x.qs = append(x.qs, &Query{Ob: fi.name() + "#cover:precondition", Kind: "cover", Func: fi.name(), Tags: []string{"*"},
		PC: st.pc[:len(st.pc):len(st.pc)], Goal: "false", Expect: "sat"})
	results := sig.Results()
	cx := &Ctx{}
	cx.onReturn = func(st *State, res []Val) {
		x.paths++
		// named results / bare return are not used in this code base
		if results.Len() != len(res) {
			x.unsupported(fi.decl, fmt.Sprintf("return with %d values, want %d", len(res), results.Len()))
			return
		}
		// name the results
		var rs []Val
		for i, r := range res {
			t := results.At(i).Type()
			if want := x.w.sortOf(t); r.S != want {
				if r.T == "0" { // untyped nil
					r = Val{T: x.w.zero(want), S: want, G: t}
				} else {
					x.unsupported(fi.decl, fmt.Sprintf("result %d has sort %s, want %s", i, r.S, want))
				}
			}
			c := x.freshConst("result", r.S)
			st.assume(app("=", c, r.T))
			rs = append(rs, Val{T: c, S: r.S, G: t})
		}
		x.runDefers(st, len(st.defers)-1, func(st *State) { x.atExit(st, rs) })
	}
	x.stmts(fi.decl.Body.List, st, cx, func(st *State) {
		if results.Len() != 0 {
			x.unsupported(fi.decl, "missing return")
			return
		}
		cx.onReturn(st, nil)
	})
	if x.paths > maxPaths {
		x.errs = append(x.errs, fi.name()+": too many paths (VC size cap)")
	}
	return x
}

// goroutineBody executes the body of "go func() { ... }()" as the code of another goroutine:
// it starts at some later moment, concurrently with everything else, so nothing is known there
// about the ghost state or about any heap component - except struct fields declared shared in a
// confine block (immutable once goroutines exist; C20 checks that) - nor about captured locals
// the enclosing function assigns again. What is known: the facts of the spawner's path about
// values that cannot change (parameters, shared fields). Safety obligations, preconditions of
// the calls and the hooks of channel operations in the body are generated as for any code;
// the frame of the enclosing function is not concerned (another goroutine's writes).
func (x *Exec) goroutineBody(st *State, s *ast.GoStmt, lit *ast.FuncLit) {
	g := st.fork()
	x.goEpoch++
	g.epoch = fmt.Sprintf("g%d", x.goEpoch)
	g.defers = nil
	g.writes = nil
	g.polls = nil
	g.names = nil
	g.nameLog = nil
	for name, cur := range g.heap {
		if x.sharedComp(name) {
			continue
		}
		g.heap[name] = Val{T: x.freshConst("H"+g.epoch+"_"+name, cur.S), S: cur.S}
	}
	nr := x.freshConst("nextref", "Int")
	g.assume(app(">=", nr, g.nextref))
	g.nextref = nr
	// captured locals that are assigned again somewhere in the enclosing function
	captured := map[types.Object]bool{}
	ast.Inspect(lit.Body, func(n ast.Node) bool {
		if id, ok := n.(*ast.Ident); ok {
			if o, ok := x.info().Uses[id].(*types.Var); ok {
				if _, has := g.vars[o]; has {
					captured[o] = true
				}
			}
		}
		return true
	})
	if x.fn.decl.Body != nil {
		ast.Inspect(x.fn.decl.Body, func(n ast.Node) bool {
			var lhs []ast.Expr
			switch t := n.(type) {
			case *ast.AssignStmt:
				if t.Tok != token.DEFINE {
					lhs = t.Lhs
				}
			case *ast.IncDecStmt:
				lhs = []ast.Expr{t.X}
			case *ast.UnaryExpr:
				if t.Op == token.AND {
					lhs = []ast.Expr{t.X}
				}
			}
			for _, l := range lhs {
				if id, ok := ast.Unparen(l).(*ast.Ident); ok {
					if o, ok := x.info().Uses[id].(*types.Var); ok && captured[o] {
						g.vars[o] = x.freshVal(g, "cap_"+o.Name(), o.Type())
					}
				}
			}
			return true
		})
	}
	g.note(fmt.Sprintf("goroutine[%d]:body", x.ordinal(s)))
	end := func(*State) { x.paths++ }
	inner := &Ctx{onReturn: func(s3 *State, _ []Val) { x.runDefers(s3, len(s3.defers)-1, end) }}
	x.stmts(lit.Body.List, g, inner, func(s3 *State) { x.runDefers(s3, len(s3.defers)-1, end) })
}

func (x *Exec) runDefers(st *State, i int, k func(*State)) {
	if i < 0 {
		k(st)
		return
	}
	d := st.defers[i]
	st.note("defer")
	d.run(st, x, func(s *State) { x.runDefers(s, i-1, k) })
}

// atExit checks the postconditions and the frame on one return path.
func (x *Exec) atExit(st *State, res []Val) {
	fi := x.fn
	binds := map[string]Val{}
	for i, r := range res {
		binds[fmt.Sprintf("result%d", i)] = r
	}
	if len(res) == 1 {
		binds["result"] = res[0]
	}
	env := &SEnv{x: x, st: st, old: x.entry, binds: binds, pkg: fi.pkgPath(), own: true, pos: fi.decl.Body.Lbrace + 1, entryParams: true}
	// cover: this return is reachable
	x.retCovers = append(x.retCovers, &Query{Ob: fi.name() + "#cover:return", Kind: "cover", Func: fi.name(), Tags: []string{"*"},
		PC: st.pc[:len(st.pc):len(st.pc)], Goal: "false", Expect: "sat", Trail: st.trail})
	n := 0
	for _, c := range x.spec.Clauses {
		if c.Kind != "ensures" || !c.relevant(x.prop) {
			continue
		}
		n++
		parts, bad := x.tryClause(env, c)
		if bad != "" {
			lab := c.Label
			if lab == "" {
				lab = fmt.Sprint(n)
			}
			x.broken(st, "ensures", "ensures:"+lab, c.Tags, bad)
			continue
		}
		for _, p := range parts {
			x.oblige(st, "ensures", "ensures:"+p.label(n), p.tagsFor(c.Tags), p.term)
		}
	}
	x.checkFrame(st)
}

// checkFrame proves that nothing outside the declared modifies clauses changed
// (for locations that existed at function entry).
func (x *Exec) checkFrame(st *State) {
	targets := map[string][]string{} // component -> refs that may change
	ghostOK := map[string]bool{}
	envp := &SEnv{x: x, st: x.entry, binds: map[string]Val{}, pkg: x.fn.pkgPath(), own: true, pos: x.fn.decl.Body.Lbrace + 1, entryParams: true}
	scratch := x.entry.fork()
	// the frame obligations carry the tags written on the modifies clauses ("modifies [C17] ...":
	// property C17 rests on this function leaving everything else alone)
	frameTags := []string{"*"}
	for _, c := range x.spec.Clauses {
		if c.Kind != "modifies" {
			continue
		}
		for _, tg := range c.Tags {
			if tg != "*" && !hasTag(frameTags, tg) {
				frameTags = append(frameTags, tg)
			}
		}
		for _, t := range c.Exprs {
			switch {
			case t.Op == "id":
				ghostOK["g_"+t.Name] = true
			case t.Op == "sel":
				base := envp.eval(t.Args[0])
				nmd, _ := ptrStruct(base.G)
				if nmd != nil {
					targets[fieldComp(nmd, t.Name)] = append(targets[fieldComp(nmd, t.Name)], base.T)
					targets["g"+fieldComp(nmd, t.Name)] = append(targets["g"+fieldComp(nmd, t.Name)], base.T)
				}
			case t.Op == "call" && t.Name == "content":
				m := envp.eval(t.Args[0])
				_, _, vs, _ := x.mapParts(scratch, m)
				targets["mdom_"+sortTag(vs)] = append(targets["mdom_"+sortTag(vs)], m.T)
				targets["mval_"+sortTag(vs)] = append(targets["mval_"+sortTag(vs)], m.T)
			case t.Op == "call" && t.Name == "elems":
				s := envp.eval(t.Args[0])
				es, _ := x.elemSort(s)
				targets["arr_"+sortTag(es)] = append(targets["arr_"+sortTag(es)], app("sl_arr", s.T))
			case t.Op == "call" && t.Name == "anycontent":
				vs := sortOfName(t.Args[0])
				if vs == "" {
					m := envp.eval(t.Args[0])
					_, _, vs, _ = x.mapParts(scratch, m)
				}
				targets["mdom_"+sortTag(vs)] = append(targets["mdom_"+sortTag(vs)], "*")
				targets["mval_"+sortTag(vs)] = append(targets["mval_"+sortTag(vs)], "*")
			case t.Op == "call" && t.Name == "anyelems":
				es := sortOfName(t.Args[0])
				if es == "" {
					s := envp.eval(t.Args[0])
					es, _ = x.elemSort(s)
				}
				targets["arr_"+sortTag(es)] = append(targets["arr_"+sortTag(es)], "*")
			}
		}
	}
	var names []string
	for name := range st.heap {
		names = append(names, name)
	}
	for name := range st.writes {
		if _, ok := st.heap[name]; !ok {
			names = append(names, name)
		}
	}
	sort.Strings(names)
	for _, name := range names {
		if name == "g_gPolls" {
			continue
		}
		if strings.HasPrefix(name, "g_") {
			cur := st.heap[name]
			init := "H0_" + name
			if cur.T == init {
				continue
			}
			x.declare(init, cur.S)
			if !ghostOK[name] {
				tags := frameTags
				if d := envp.ghostDecl(strings.TrimPrefix(name, "g_")); d != nil {
					for _, tg := range d.Tags {
						if !hasTag(tags, tg) {
							tags = append(tags[:len(tags):len(tags)], tg)
						}
					}
				}
				x.oblige(st, "frame", "frame:"+name, tags, app("=", cur.T, init))
			}
			continue
		}
		var goals []string
		anyOK := false
		for _, r := range targets[name] {
			if r == "*" {
				anyOK = true
			}
		}
		if anyOK {
			continue
		}
		for _, w := range st.writes[name] {
			if w.ref == "*" {
				goals = append(goals, not(w.guard))
				continue
			}
			alts := []string{app(">=", w.ref, x.entry.nextref), app("<=", w.ref, "0")}
			for _, r := range targets[name] {
				alts = append(alts, app("=", w.ref, r))
			}
			goals = append(goals, implies(w.guard, or(alts...)))
		}
		if len(goals) > 0 {
			tags := frameTags
			if x.prop != "" && !hasTag(tags, x.prop) && !strings.HasPrefix(name, "fld_") {
				// contents of a map written through a struct field the function's modifies clauses
				// do not name, while the contracts of this property talk about that field
				for _, f := range st.writeFields[name] {
					declared := false
					for _, c := range x.spec.Clauses {
						if c.Kind == "modifies" && strings.Contains(c.Text, "."+f) {
							declared = true
						}
					}
					if !declared && x.fieldInContractsOf("fld_x_"+f) {
						tags = append(tags[:len(tags):len(tags)], x.prop)
						break
					}
				}
			}
			if x.prop != "" && !hasTag(tags, x.prop) && x.fieldInContractsOf(name) {
				// the function writes, outside its declared frame, a struct field that the
				// contracts of this property talk about: what they say of it rested on the frame
				tags = append(tags[:len(tags):len(tags)], x.prop)
			}
			x.oblige(st, "frame", "frame:"+name, tags, and(goals...))
		}
	}
}

// fieldInContractsOf: comp is the heap component of a struct field ("fld_<type>_<field>") and
// some clause tagged with the property being checked - of a function, a predicate or an event of
// this package - mentions ".<field>".
func (x *Exec) fieldInContractsOf(comp string) bool {
	if !strings.HasPrefix(comp, "fld_") {
		return false
	}
	if x.fieldTagCache == nil {
		x.fieldTagCache = map[string]bool{}
	}
	if v, ok := x.fieldTagCache[comp]; ok {
		return v
	}
	parts := strings.Split(comp, "_")
	var cands []string
	for n := 1; n <= 3 && n < len(parts)-1; n++ {
		cands = append(cands, "."+strings.Join(parts[len(parts)-n:], "_"))
	}
	mentions := func(cs []*Clause) bool {
		for _, c := range cs {
			if !hasTag(c.Tags, x.prop) {
				continue
			}
			for _, f := range cands {
				for i := strings.Index(c.Text, f); i >= 0; {
					end := i + len(f)
					if end == len(c.Text) || !(c.Text[end] == '_' || c.Text[end] >= '0' && c.Text[end] <= '9' || c.Text[end] >= 'a' && c.Text[end] <= 'z' || c.Text[end] >= 'A' && c.Text[end] <= 'Z') {
						return true
					}
					j := strings.Index(c.Text[end:], f)
					if j < 0 {
						break
					}
					i = end + j
				}
			}
		}
		return false
	}
	found := false
	pkg := x.fn.pkgPath()
	for _, f := range x.sp.Funcs {
		if f.Pkg == pkg && !f.External {
			if mentions(f.Clauses) {
				found = true
			}
			for _, l := range f.Loops {
				if mentions(l.Clauses) {
					found = true
				}
			}
		}
	}
	for _, pr := range x.sp.Preds {
		if pr.Pkg == pkg && mentions(pr.Clauses) {
			found = true
		}
	}
	for _, ev := range x.sp.Events {
		if ev.Pkg == pkg && mentions(ev.Clauses) {
			found = true
		}
	}
	x.fieldTagCache[comp] = found
	return found
}

// observations lists, for the integer-slice and integer-map parameters of a function, the terms
// whose values in a counterexample model describe those arguments in the entry state: the
// replay builds real slices and maps from them (replay.go).
const obsMax = 12

func (x *Exec) observations(st *State, sig *types.Signature) []obsTerm {
	var out []obsTerm
	isInt := func(t types.Type) bool {
		_, _, ok := intRange(t)
		return ok
	}
	var slices []string
	for i := 0; i < sig.Params().Len(); i++ {
		p := sig.Params().At(i)
		if sl, ok := types.Unalias(p.Type()).Underlying().(*types.Slice); ok && isInt(sl.Elem()) {
			c := st.vars[p].T
			slices = append(slices, p.Name())
			out = append(out, obsTerm{p.Name() + "#len", app("sl_len", c)}, obsTerm{p.Name() + "#nil", app("=", app("sl_arr", c), "0")})
			for k := 0; k < obsMax; k++ {
				out = append(out, obsTerm{fmt.Sprintf("%s#%d", p.Name(), k), app("select", app("select", "H0_arr_Int", app("sl_arr", c)), app("at", app("sl_off", c), fmt.Sprint(k)))})
			}
		}
	}
	for i := 0; i < sig.Params().Len(); i++ {
		p := sig.Params().At(i)
		if m, ok := types.Unalias(p.Type()).Underlying().(*types.Map); ok && isInt(m.Key()) && isInt(m.Elem()) {
			c := st.vars[p].T
			out = append(out, obsTerm{p.Name() + "#nil", app("=", c, "0")})
			for _, sn := range slices {
				for k := 0; k < obsMax; k++ {
					var key string
					for _, o := range out {
						if o.Name == fmt.Sprintf("%s#%d", sn, k) {
							key = o.Term
						}
					}
					out = append(out, obsTerm{fmt.Sprintf("%s@%s#%d#dom", p.Name(), sn, k), app("select", app("select", "H0_mdom_Int", c), key)},
						obsTerm{fmt.Sprintf("%s@%s#%d#val", p.Name(), sn, k), app("select", app("select", "H0_mval_Int", c), key)})
				}
			}
		}
	}
	return out
}
