package main

// Evaluation of specification expressions in a symbolic state.

import (
	"sort"
	"fmt"
	"go/constant"
	"go/token"
	"go/types"
	"strings"
)

type SEnv struct {
	x           *Exec
	st          *State
	old         *State
	binds       map[string]Val
	pkg         string
	own         bool
	pos         token.Pos
	entryParams bool
	bound       map[string]string
	depth       int
	factSt      *State // receives closed auxiliary facts generated under binders
}

type part struct {
	term string
	lab  string
	tags []string // tags of the predicate clause the part comes from
}

// tagsFor merges the tags of the using clause with those of the predicate clause.
func (p part) tagsFor(outer []string) []string {
	if len(p.tags) == 0 {
		return outer
	}
	out := append([]string{}, outer...)
	for _, t := range p.tags {
		if !hasTag(out, t) {
			out = append(out, t)
		}
	}
	return out
}

func (p part) label(n int) string {
	if p.lab != "" {
		return p.lab
	}
	return fmt.Sprint(n)
}

func (e *SEnv) fail(sx *SX, msg string) Val {
	e.x.errs = append(e.x.errs, fmt.Sprintf("%s: spec error: %s in %s", sx.Pos, msg, sx))
	return Val{T: "true", S: "Bool"}
}

func (e *SEnv) pred(name string) *PredSpec {
	if p := e.x.sp.Preds[e.pkg+"."+name]; p != nil {
		return p
	}
	return e.x.sp.Preds["."+name]
}

func (e *SEnv) ghostDecl(name string) *GhostDecl {
	if g := e.x.sp.Ghosts[e.pkg+"."+name]; g != nil {
		return g
	}
	return e.x.sp.Ghosts["."+name]
}

// evalClause evaluates a clause to Boolean terms; a clause that is a single predicate
// application is split into the predicate's (relevant) clauses.
func (e *SEnv) evalClause(c *Clause) []part {
	sx := c.Expr
	if sx.Op == "call" {
		if p := e.pred(sx.Name); p != nil && len(p.Clauses) > 1 {
			return e.expandPred(p, sx, c.Label)
		}
	}
	v := e.eval(sx)
	if v.S != "Bool" {
		e.fail(sx, "clause is not Boolean")
		return nil
	}
	return []part{{v.T, c.Label, nil}}
}

func (e *SEnv) expandPred(p *PredSpec, sx *SX, label string) []part {
	if len(sx.Args) != len(p.Params) {
		e.fail(sx, "wrong number of predicate arguments")
		return nil
	}
	if e.depth > 8 {
		e.fail(sx, "predicate recursion")
		return nil
	}
	var args []Val
	for _, a := range sx.Args {
		args = append(args, e.eval(a))
	}
	if p.Opaque && !(e.x.spec != nil && e.x.spec.Reveals[p.Name]) {
		return e.opaquePred(p, args, label)
	}
	return e.expandWith(p, args, label)
}

// opaquePred renders the application of an opaque predicate as an uninterpreted function of
// its arguments and of the heap components its definition reads (DESIGN.md 12.7): functions
// that do not reveal the predicate can pass it on, but neither use nor establish its content.
func (e *SEnv) opaquePred(p *PredSpec, args []Val, label string) []part {
	var tags []string
	rel := false
	for _, c := range p.Clauses {
		if c.relevant(e.x.prop) {
			rel = true
			for _, t := range c.Tags {
				if !hasTag(tags, t) {
					tags = append(tags, t)
				}
			}
		}
	}
	if !rel {
		return nil
	}
	sub := *e
	sub.st = e.st.fork()
	n0 := len(e.x.errs)
	var body strings.Builder
	// the definition is evaluated on placeholders: only the heap components the body itself
	// reads count, not those mentioned by the actual arguments
	var ph []Val
	for i, a := range args {
		b := a
		b.T = fmt.Sprintf("oparg%d", i)
		ph = append(ph, b)
	}
	for _, q := range sub.expandWith(p, ph, "") {
		body.WriteString(q.term)
		body.WriteString(" ")
	}
	if len(e.x.errs) > n0 {
		return nil
	}
	bt := body.String()
	var names []string
	for name := range sub.st.heap {
		names = append(names, name)
	}
	sort.Strings(names)
	var ts, sorts []string
	for _, a := range args {
		ts = append(ts, a.T)
		sorts = append(sorts, a.S)
	}
	for _, name := range names {
		v := sub.st.heap[name]
		if containsTerm(bt, v.T) {
			ts = append(ts, v.T)
			sorts = append(sorts, v.S)
		}
	}
	fn := "op_" + p.Name + "_" + sane(strings.Join(sorts, "_"))
	e.x.declare(fn, "DFUN ("+strings.Join(sorts, " ")+") Bool")
	l := p.Name
	if label != "" {
		l = label + "/" + l
	}
	return []part{{app(fn, ts...), l, tags}}
}

// containsTerm: t occurs in s as a whole term (not as a prefix of a longer symbol).
func containsTerm(s, t string) bool {
	for i := 0; ; {
		j := strings.Index(s[i:], t)
		if j < 0 {
			return false
		}
		k := i + j + len(t)
		if k >= len(s) || !(s[k] == '!' || s[k] == '_' || (s[k] >= '0' && s[k] <= '9') || (s[k] >= 'a' && s[k] <= 'z') || (s[k] >= 'A' && s[k] <= 'Z')) {
			return true
		}
		i = i + j + 1
	}
}

func (e *SEnv) expandWith(p *PredSpec, args []Val, label string) []part {
	sub := *e
	sub.depth++
	sub.binds = map[string]Val{}
	sub.pkg = p.Pkg
	if p.Pkg == "" {
		sub.pkg = e.pkg
	}
	sub.own = false
	sub.bound = e.bound
	for i, a := range args {
		sub.binds[p.Params[i]] = a
	}
	// ghost-style globals remain visible through st
	var out []part
	for i, c := range p.Clauses {
		if !c.relevant(e.x.prop) {
			continue
		}
		lab := c.Label
		if lab == "" {
			lab = fmt.Sprint(i)
		}
		for _, q := range sub.evalClause(c) {
			l := p.Name + "." + lab
			if q.lab != "" && q.lab != c.Label {
				l = q.lab
			}
			if label != "" {
				l = label + "/" + l
			}
			tg := q.tags
			if len(tg) == 0 {
				tg = c.Tags
			}
			out = append(out, part{q.term, l, tg})
		}
	}
	return out
}

// closedMapFacts adds facts about map m that do not depend on bound variables: a nil map
// is empty, stored integer values are well typed.
func (e *SEnv) closedMapFacts(m Val) {
	x := e.x
	if strings.Contains(m.T, "q_") {
		return
	}
	st := e.factSt
	if st == nil {
		st = e.st
	}
	d, vv, vs, vt := x.mapParts(e.st, m)
	f := []string{fmt.Sprintf("(forall ((k Int)) (! (not (select %s k)) :pattern ((select %s k))))", d, d)}
	if vs == "Int" {
		f = append(f, app("=", app("msum", d, vv), "0"))
	}
	st.assume(implies(app("=", m.T, "0"), and(f...)))
	if vs == "Int" {
		st.assume(fmt.Sprintf("(=> (= (msum %s %s) 0) (forall ((k Int)) (! (=> (select %s k) (<= (select %s k) 0)) :pattern ((select %s k)))))", d, vv, d, vv, vv))
		st.assume(fmt.Sprintf("(=> (forall ((k Int)) (=> (select %s k) (= (nn (select %s k)) 0))) (= (msum %s %s) 0))", d, vv, d, vv))
	}
	if vt != nil {
		if _, _, ok := intRange(vt); ok {
			st.assume(fmt.Sprintf("(forall ((k Int)) (! (=> (select %s k) %s) :pattern ((select %s k))))", d, inRange(app("select", vv, "k"), vt), vv))
		}
	}
}

func (e *SEnv) evalBool(sx *SX) string {
	v := e.eval(sx)
	if v.S != "Bool" {
		e.fail(sx, "Boolean expected, got "+v.S)
		return "true"
	}
	return v.T
}

// localHints: function -> identifier used in its contract -> declaration ordinal of the
// local variable it named on the tree the baseline was recorded on.
var localHints = map[string]map[string]int{}

var smtFuncs = map[string]string{"u2f": "F", "f2u": "Int", "fdiv": "F", "fmul": "F", "fsub": "F", "fround": "F", "fabs": "F", "ffloor": "F", "fceil": "F", "ftrunc": "F",
	"fle": "Bool", "flt": "Bool", "nn": "Int", "tdiv": "Int", "chancap": "Int"}

func (e *SEnv) eval(sx *SX) Val {
	x := e.x
	switch sx.Op {
	case "int":
		return Val{T: sx.Name, S: "Int"}
	case "bool":
		return Val{T: sx.Name, S: "Bool"}
	case "nil":
		return Val{T: "0", S: "Int", E: "nil"}
	case "id":
		return e.evalID(sx)
	case "sel":
		return e.evalSel(sx)
	case "idx":
		base := e.eval(sx.Args[0])
		i := e.eval(sx.Args[1])
		switch {
		case base.S == "Slice":
			v := x.sliceAt(e.st, base, i.T)
			return v
		case base.G != nil && mapValType(base.G) != nil:
			v, _ := x.mapRead(e.stForFacts(), base, i.T)
			e.closedMapFacts(base)
			return v
		case strings.HasPrefix(base.S, "(Array Int "):
			return Val{T: app("select", base.T, i.T), S: arrayElem(base.S)}
		}
		return e.fail(sx, "cannot index "+base.S)
	case "un":
		a := e.eval(sx.Args[0])
		if sx.Name == "!" {
			if a.S != "Bool" {
				return e.fail(sx, "! of non-Boolean")
			}
			return Val{T: not(a.T), S: "Bool"}
		}
		return Val{T: app("-", a.T), S: "Int"}
	case "bin":
		return e.evalBin(sx)
	case "forall", "exists":
		sub := *e
		sub.bound = map[string]string{}
		for k, v := range e.bound {
			sub.bound[k] = v
		}
		var decl []string
		for _, v := range sx.Vars {
			sub.bound[v] = "Int"
			decl = append(decl, "("+"q_"+v+" Int)")
		}
		// facts produced while evaluating under a binder must not leak into the state
		tmp := e.st.fork()
		sub.st = tmp
		if sub.factSt == nil {
			sub.factSt = e.st
		}
		body := sub.evalBool(sx.Args[0])
		// closed heap reads that were named for the first time under the binder keep their definition
		for i := len(e.st.nameLog); i+1 < len(tmp.nameLog); i += 2 {
			term, c := tmp.nameLog[i], tmp.nameLog[i+1]
			if strings.Contains(term, "q_") {
				continue
			}
			if e.st.names == nil {
				e.st.names = map[string]string{}
			}
			if _, ok := e.st.names[term]; !ok {
				e.st.pc = append(e.st.pc, app("=", c, term))
				e.st.names[term] = c
				e.st.nameLog = append(e.st.nameLog, term, c)
			}
		}
		// carry heap components that were created lazily
		for k, v := range tmp.heap {
			if _, ok := e.st.heap[k]; !ok {
				e.st.heap[k] = v
			}
		}
		return Val{T: "(" + sx.Op + " (" + strings.Join(decl, " ") + ") " + body + ")", S: "Bool"}
	case "call":
		return e.evalCallSX(sx)
	}
	return e.fail(sx, "unknown expression form")
}

// stForFacts is the state that receives auxiliary facts (lemma instances) generated
// while evaluating; under binders these are dropped.
func (e *SEnv) stForFacts() *State { return e.st }

func (e *SEnv) evalID(sx *SX) Val {
	x := e.x
	name := sx.Name
	if _, ok := e.bound[name]; ok {
		return Val{T: "q_" + name, S: "Int"}
	}
	if v, ok := e.binds[name]; ok {
		return v
	}
	if e.st.ghostTmp != nil {
		if v, ok := e.st.ghostTmp[name]; ok {
			return v
		}
	}
	switch name {
	case "$nextref":
		return Val{T: e.st.nextref, S: "Int"}
	case "two64":
		return Val{T: two64, S: "Int"}
	case "two63":
		return Val{T: two63, S: "Int"}
	case "emptyset":
		return Val{T: "((as const (Array Int Bool)) false)", S: "(Array Int Bool)"}
	}
	if g := e.ghostDecl(name); g != nil {
		if v, ok := e.st.heap["g_"+name]; ok {
			return v
		}
		c := x.declare("H0_g_"+name, g.Sort)
		v := Val{T: c, S: g.Sort}
		e.st.heap["g_"+name] = v
		return v
	}
	if e.own {
		scope := x.fn.pkg.Types.Scope().Innermost(e.pos)
		if scope != nil {
			if _, obj := scope.LookupParent(name, e.pos); obj != nil {
				if vr, ok := obj.(*types.Var); ok {
					if e.entryParams && x.fn.isParam(vr) {
						if v, ok := x.entry.vars[vr]; ok {
							if ord, ok := x.localOrd[vr]; ok {
								x.usedLocals[name] = ord
							}
							return v
						}
					}
					if v, ok := e.st.vars[vr]; ok {
						if ord, ok := x.localOrd[vr]; ok {
							x.usedLocals[name] = ord
						}
						return v
					}
					if vr.Parent() == vr.Pkg().Scope() && isErrorType(vr.Type()) {
						return x.errConst(vr)
					}
					return e.fail(sx, "variable "+name+" is not bound at this point")
				}
				if c, ok := obj.(*types.Const); ok {
					return constToVal(x, c)
				}
			}
		}
	}
	if e.own {
		// rename robustness: the identifier named a local variable when the contract was
		// written; find it by its declaration ordinal
		if ord, ok := localHints[x.fn.name()][name]; ok && ord < len(x.localDecls) {
			if vr, ok := x.localDecls[ord].(*types.Var); ok {
				if e.entryParams && x.fn.isParam(vr) {
					if v, ok := x.entry.vars[vr]; ok {
						return v
					}
				}
				if v, ok := e.st.vars[vr]; ok {
					return v
				}
			}
		}
	}
	if obj := x.prog.lookup(e.pkg, name); obj != nil {
		switch o := obj.(type) {
		case *types.Var:
			if isErrorType(o.Type()) {
				return x.errConst(o)
			}
		case *types.Const:
			return constToVal(x, o)
		}
	}
	return e.fail(sx, "unknown identifier "+name)
}

func constToVal(x *Exec, c *types.Const) Val {
	switch c.Val().Kind() {
	case constant.Int:
		return Val{T: intLit(c.Val().ExactString()), S: "Int", G: c.Type()}
	case constant.Bool:
		return Val{T: fmt.Sprint(constant.BoolVal(c.Val())), S: "Bool"}
	case constant.Float:
		if i := constant.ToInt(c.Val()); i.Kind() == constant.Int {
			return Val{T: intLit(i.ExactString()), S: "Int", G: c.Type()}
		}
		return x.floatConst(c.Val().ExactString(), c.Type())
	}
	return Val{T: "0", S: "Int"}
}

func (e *SEnv) evalSel(sx *SX) Val {
	x := e.x
	// package-qualified name?
	if b := sx.Args[0]; b.Op == "id" {
		if _, isBound := e.bound[b.Name]; !isBound {
			if _, isBind := e.binds[b.Name]; !isBind && e.ghostDecl(b.Name) == nil && !e.isLocal(b.Name) {
				if obj := x.prog.lookupQualified(e.pkg, b.Name, sx.Name); obj != nil {
					switch o := obj.(type) {
					case *types.Var:
						if isErrorType(o.Type()) {
							return x.errConst(o)
						}
					case *types.Const:
						return constToVal(x, o)
					}
				}
			}
		}
	}
	base := e.eval(sx.Args[0])
	if base.S == "Slice" {
		switch sx.Name {
		case "arr", "off", "len", "cap":
			return Val{T: app("sl_"+sx.Name, base.T), S: "Int"}
		}
	}
	if base.G != nil {
		if _, isPtr := types.Unalias(base.G).Underlying().(*types.Pointer); isPtr {
			v, ok := x.readField(e.st, base, sx.Name)
			if !ok {
				return e.fail(sx, "no field "+sx.Name)
			}
			return v
		}
	}
	if v := x.structField(base, sx.Name); v.S != "" {
		return v
	}
	return e.fail(sx, "cannot select "+sx.Name+" from "+base.S)
}

func (e *SEnv) isLocal(name string) bool {
	if !e.own {
		return false
	}
	scope := e.x.fn.pkg.Types.Scope().Innermost(e.pos)
	if scope == nil {
		return false
	}
	_, obj := scope.LookupParent(name, e.pos)
	if obj == nil {
		return false
	}
	_, isPkg := obj.(*types.PkgName)
	return !isPkg
}

func (e *SEnv) evalBin(sx *SX) Val {
	op := sx.Name
	a := e.eval(sx.Args[0])
	b := e.eval(sx.Args[1])
	needBool := func() bool { return a.S == "Bool" && b.S == "Bool" }
	switch op {
	case "&&":
		if !needBool() {
			return e.fail(sx, "&& of non-Booleans")
		}
		return Val{T: and(a.T, b.T), S: "Bool"}
	case "||":
		if !needBool() {
			return e.fail(sx, "|| of non-Booleans")
		}
		return Val{T: or(a.T, b.T), S: "Bool"}
	case "==>":
		if !needBool() {
			return e.fail(sx, "==> of non-Booleans")
		}
		return Val{T: implies(a.T, b.T), S: "Bool"}
	case "<==>":
		if !needBool() {
			return e.fail(sx, "<==> of non-Booleans")
		}
		return Val{T: app("=", a.T, b.T), S: "Bool"}
	case "==", "!=":
		var t string
		switch {
		case a.S == "Slice" && b.E == "nil":
			t = app("=", app("sl_arr", a.T), "0")
		case b.S == "Slice" && a.E == "nil":
			t = app("=", app("sl_arr", b.T), "0")
		case a.S != b.S:
			return e.fail(sx, fmt.Sprintf("comparison of %s with %s", a.S, b.S))
		default:
			t = app("=", a.T, b.T)
		}
		if op == "!=" {
			t = not(t)
		}
		return Val{T: t, S: "Bool"}
	case "<", "<=", ">", ">=":
		if a.S == "F" && b.S == "F" {
			switch op {
			case "<":
				return Val{T: app("flt", a.T, b.T), S: "Bool"}
			case "<=":
				return Val{T: app("fle", a.T, b.T), S: "Bool"}
			case ">":
				return Val{T: app("flt", b.T, a.T), S: "Bool"}
			default:
				return Val{T: app("fle", b.T, a.T), S: "Bool"}
			}
		}
		if a.S != "Int" || b.S != "Int" {
			return e.fail(sx, "ordering of non-integers")
		}
		return Val{T: app(op, a.T, b.T), S: "Bool"}
	case "+", "-", "*", "/", "%", "<<":
		if a.S != "Int" || b.S != "Int" {
			return e.fail(sx, "arithmetic on non-integers")
		}
		switch op {
		case "/":
			return Val{T: app("div", a.T, b.T), S: "Int"}
		case "%":
			return Val{T: app("mod", a.T, b.T), S: "Int"}
		case "<<":
			// constant shifts only
			var av, bv int64
			if _, err := fmt.Sscan(a.T, &av); err == nil {
				if _, err := fmt.Sscan(b.T, &bv); err == nil && bv < 200 {
					r := constant.Shift(constant.MakeInt64(av), token.SHL, uint(bv))
					return Val{T: r.ExactString(), S: "Int"}
				}
			}
			return e.fail(sx, "non-constant shift")
		}
		return Val{T: app(op, a.T, b.T), S: "Int"}
	}
	return e.fail(sx, "operator "+op)
}

func (e *SEnv) evalCallSX(sx *SX) Val {
	x := e.x
	argn := func(n int) bool {
		if len(sx.Args) != n {
			e.fail(sx, fmt.Sprintf("%s expects %d arguments", sx.Name, n))
			return false
		}
		return true
	}
	if p := e.pred(sx.Name); p != nil {
		var ts []string
		for _, q := range e.expandPred(p, sx, "") {
			ts = append(ts, q.term)
		}
		return Val{T: and(ts...), S: "Bool"}
	}
	if rs, ok := smtFuncs[sx.Name]; ok {
		var a []string
		for _, s := range sx.Args {
			a = append(a, e.eval(s).T)
		}
		return Val{T: app(sx.Name, a...), S: rs}
	}
	switch sx.Name {
	case "old":
		if !argn(1) {
			break
		}
		if e.old == nil {
			return e.fail(sx, "old() is not available here")
		}
		sub := *e
		sub.st = e.old
		sub.old = nil
		if e.own {
			sub.entryParams = false
		}
		n0 := len(e.old.pc)
		v := sub.eval(sx.Args[0])
		// facts about the pre-state heap generated during the evaluation belong to the current path
		if len(e.bound) == 0 {
			for _, f := range e.old.pc[n0:] {
				e.st.assume(f)
			}
		}
		e.old.pc = e.old.pc[:n0:n0]
		return v
	case "oldat":
		// oldat(s, i): element i (current value of i) of slice s as it was in the pre-state
		if !argn(2) {
			break
		}
		if e.old == nil {
			return e.fail(sx, "oldat() is not available here")
		}
		sub := *e
		sub.st = e.old
		sub.old = nil
		sl := sub.eval(sx.Args[0])
		i := e.eval(sx.Args[1])
		if sl.S != "Slice" {
			return e.fail(sx, "oldat of non-slice")
		}
		return x.sliceAt(e.old, sl, i.T)
	case "len", "cap":
		if !argn(1) {
			break
		}
		a := e.eval(sx.Args[0])
		switch {
		case a.S == "Slice":
			return Val{T: app("sl_"+sx.Name, a.T), S: "Int"}
		case a.G != nil && mapValType(a.G) != nil && sx.Name == "len":
			d, _, _, _ := x.mapParts(e.st, a)
			if len(e.bound) == 0 {
				e.st.assume(fmt.Sprintf("(= (= (mcard %s) 0) (forall ((k Int)) (! (not (select %s k)) :pattern ((select %s k)))))", d, d, d))
				e.st.assume(app(">=", app("mcard", d), "0"))
			}
			return Val{T: app("mcard", d), S: "Int"}
		case a.G != nil && chanElem(a.G) != nil && sx.Name == "cap":
			return Val{T: app("chancap", a.T), S: "Int"}
		}
		return e.fail(sx, sx.Name+" of "+a.S)
	case "msum":
		if !argn(1) {
			break
		}
		m := e.eval(sx.Args[0])
		d, v, vs, _ := x.mapParts(e.st, m)
		if len(e.bound) == 0 {
			x.nilMapFacts(e.st, m, d, v, vs, "")
			e.st.assume(app(">=", app("msum", d, v), "0"))
		}
		return Val{T: app("msum", d, v), S: "Int"}
	case "msumR":
		if !argn(2) {
			break
		}
		m := e.eval(sx.Args[0])
		s := e.eval(sx.Args[1])
		d, v, _, _ := x.mapParts(e.st, m)
		if len(e.bound) == 0 {
			e.st.assume(and(app(">=", app("msumR", d, v, s.T), "0"), app("<=", app("msumR", d, v, s.T), app("msum", d, v))))
		}
		return Val{T: app("msumR", d, v, s.T), S: "Int"}
	case "dom":
		if !argn(2) {
			break
		}
		m := e.eval(sx.Args[0])
		k := e.eval(sx.Args[1])
		d, _, _, _ := x.mapParts(e.st, m)
		e.closedMapFacts(m)
		return Val{T: app("select", d, k.T), S: "Bool"}
	case "domset":
		if !argn(1) {
			break
		}
		m := e.eval(sx.Args[0])
		d, _, _, _ := x.mapParts(e.st, m)
		e.closedMapFacts(m)
		return Val{T: d, S: "(Array Int Bool)"}
	case "ite":
		if !argn(3) {
			break
		}
		c := e.evalBool(sx.Args[0])
		a := e.eval(sx.Args[1])
		b := e.eval(sx.Args[2])
		if a.S != b.S {
			return e.fail(sx, "ite branches of different sorts")
		}
		a.T = app("ite", c, a.T, b.T)
		return a
	case "store":
		if !argn(3) {
			break
		}
		a := e.eval(sx.Args[0])
		i := e.eval(sx.Args[1])
		v := e.eval(sx.Args[2])
		if !strings.HasPrefix(a.S, "(Array Int ") || arrayElem(a.S) != v.S {
			return e.fail(sx, fmt.Sprintf("store of %s into %s", v.S, a.S))
		}
		return Val{T: app("store", a.T, i.T, v.T), S: a.S}
	case "in":
		if !argn(2) {
			break
		}
		s := e.eval(sx.Args[0])
		k := e.eval(sx.Args[1])
		return Val{T: app("select", s.T, k.T), S: "Bool"}
	case "allocated":
		if !argn(1) {
			break
		}
		r := e.eval(sx.Args[0])
		return Val{T: and(app("<", "0", r.T), app("<", r.T, e.st.nextref)), S: "Bool"}
	case "fresh":
		if !argn(1) {
			break
		}
		if e.old == nil {
			return e.fail(sx, "fresh() needs a pre-state")
		}
		r := e.eval(sx.Args[0])
		if r.S == "Slice" {
			r = Val{T: app("sl_arr", r.T), S: "Int"}
		}
		return Val{T: and(app("<=", e.old.nextref, r.T), app("<", r.T, e.st.nextref)), S: "Bool"}
	case "min", "max":
		if !argn(2) {
			break
		}
		a := e.eval(sx.Args[0])
		b := e.eval(sx.Args[1])
		op := "<"
		if sx.Name == "max" {
			op = ">"
		}
		return Val{T: app("ite", app(op, a.T, b.T), a.T, b.T), S: "Int"}
	case "slice":
		// slice(arr, off, len, cap): construct a slice value (ghost)
		if !argn(4) {
			break
		}
		var a []string
		for _, s := range sx.Args {
			a = append(a, e.eval(s).T)
		}
		return Val{T: app("mk_Slice", a...), S: "Slice"}
	case "arrdata":
		// arrdata(s): the backing array contents (Array Int Elem) of slice s
		if !argn(1) {
			break
		}
		s := e.eval(sx.Args[0])
		es, _ := x.elemSort(s)
		a := x.arrComp(e.st, es)
		return Val{T: app("select", a.T, app("sl_arr", s.T)), S: arrayOf(es)}
	case "seqappend":
		// seqappend(seq, n, s): seq with the elements of slice s written at positions n, n+1, ...
		if !argn(3) {
			break
		}
		if len(e.bound) > 0 {
			return e.fail(sx, "seqappend under a binder")
		}
		q := e.eval(sx.Args[0])
		n := e.eval(sx.Args[1])
		sl := e.eval(sx.Args[2])
		es, _ := x.elemSort(sl)
		if q.S != arrayOf(es) {
			return e.fail(sx, "seqappend: element sorts differ")
		}
		c := x.freshConst("seq", q.S)
		at := x.sliceAt(e.st, sl, app("-", "j", n.T))
		e.st.assume(fmt.Sprintf("(forall ((j Int)) (! (= (select %s j) (ite (and (<= %s j) (< j (+ %s %s))) %s (select %s j))) :pattern ((select %s j))))",
			c, n.T, n.T, app("sl_len", sl.T), at.T, q.T, c))
		return Val{T: c, S: q.S}
	case "pset":
		// pset(s, n): the set of the first n elements of the integer slice s
		if !argn(2) {
			break
		}
		sl := e.eval(sx.Args[0])
		n := e.eval(sx.Args[1])
		if sl.S != "Slice" {
			return e.fail(sx, "pset of non-slice")
		}
		a := x.arrComp(e.st, "Int")
		inner := app("select", a.T, app("sl_arr", sl.T))
		off := app("sl_off", sl.T)
		t := app("pset", inner, off, n.T)
		if !strings.Contains(inner+off+n.T, "q_") {
			st := e.factSt
			if st == nil {
				st = e.st
			}
			st.assume(fmt.Sprintf("(forall ((j Int)) (! (=> (and (<= 0 j) (< j %s)) (select %s (select %s (at %s j)))) :pattern ((select %s (at %s j)))))", n.T, t, inner, off, inner, off))
			st.assume(fmt.Sprintf("(forall ((k Int)) (! (=> (select %s k) (exists ((j Int)) (and (<= 0 j) (< j %s) (= (select %s (at %s j)) k)))) :pattern ((select %s k))))", t, n.T, inner, off, t))
		}
		return Val{T: t, S: "(Array Int Bool)"}
	case "slices":
		// slices(s): s is a slice whose elements are slices (for ghost values, which carry no Go type)
		if !argn(1) {
			break
		}
		v := e.eval(sx.Args[0])
		v.E = "Slice"
		v.G = nil
		return v
	case "pow2m1":
		// pow2m1(n) = 2^n - 1 (uninterpreted; the recurrence is instantiated for ground arguments)
		if !argn(1) {
			break
		}
		n := e.eval(sx.Args[0])
		t := app("pow2m1", n.T)
		if len(e.bound) == 0 {
			e.st.assume(app("=", app("pow2m1", "0"), "0"))
			e.st.assume(app("=>", app(">=", n.T, "0"), app(">=", t, "0")))
			e.st.assume(app("=>", app(">=", n.T, "1"), app("=", t, app("+", app("*", "2", app("pow2m1", app("-", n.T, "1"))), "1"))))
			e.st.assume(app("=>", app(">=", n.T, "0"), app("=", app("pow2m1", app("+", n.T, "1")), app("+", app("*", "2", t), "1"))))
		}
		return Val{T: t, S: "Int"}
	case "lsum":
		// lsum(s, n): sum of the first n elements of slice s
		if !argn(2) {
			break
		}
		s := e.eval(sx.Args[0])
		n := e.eval(sx.Args[1])
		a := x.arrComp(e.st, "Int")
		return Val{T: app("lsum", app("sl_off", s.T), n.T, app("select", a.T, app("sl_arr", s.T))), S: "Int"}
	}
	return e.fail(sx, "unknown function "+sx.Name)
}
