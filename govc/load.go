package main

// Loading of the packages under verification from /repo's working tree.

import (
	"fmt"
	"go/ast"
	"go/types"
	"os"
	"path/filepath"
	"strings"

	"golang.org/x/tools/go/packages"
)

const modRoot = "github.com/akramarenkov/cqos"

type FuncInfo struct {
	pkg  *packages.Package
	decl *ast.FuncDecl
	obj  *types.Func
	key  string
}

func (f *FuncInfo) pkgPath() string { return f.pkg.PkgPath }

func (f *FuncInfo) name() string {
	k := strings.TrimPrefix(f.key, modRoot+"/")
	return k
}

func (f *FuncInfo) paramNames() []string {
	var out []string
	if f.decl.Recv != nil {
		for _, fl := range f.decl.Recv.List {
			if len(fl.Names) == 0 {
				out = append(out, "_")
			}
			for _, n := range fl.Names {
				out = append(out, n.Name)
			}
		}
	}
	for _, fl := range f.decl.Type.Params.List {
		if len(fl.Names) == 0 {
			out = append(out, "_")
		}
		for _, n := range fl.Names {
			out = append(out, n.Name)
		}
	}
	return out
}

func (f *FuncInfo) isParam(v *types.Var) bool {
	sig := f.obj.Type().(*types.Signature)
	if sig.Recv() == v {
		return true
	}
	for i := 0; i < sig.Params().Len(); i++ {
		if sig.Params().At(i) == v {
			return true
		}
	}
	return false
}

type Program struct {
	pkgs  map[string]*packages.Package
	funcs map[string]*FuncInfo
	types map[string]*types.Package
}

func newProgram() *Program {
	return &Program{pkgs: map[string]*packages.Package{}, funcs: map[string]*FuncInfo{}, types: map[string]*types.Package{}}
}

// load type-checks the given packages of one module from source (build tag verif on).
func (p *Program) load(dir string, patterns []string) error {
	cfg := &packages.Config{
		Mode: packages.NeedName | packages.NeedFiles | packages.NeedCompiledGoFiles | packages.NeedImports |
			packages.NeedTypes | packages.NeedTypesSizes | packages.NeedSyntax | packages.NeedTypesInfo,
		Dir:        dir,
		BuildFlags: []string{"-tags=verif"},
		Env:        append(os.Environ(), "GOFLAGS=-mod=mod", "GOPROXY=off", "GOSUMDB=off", "GOTOOLCHAIN=local", "GOWORK=off"),
	}
	pkgs, err := packages.Load(cfg, patterns...)
	if err != nil {
		return err
	}
	for _, pkg := range pkgs {
		if len(pkg.Errors) > 0 {
			return fmt.Errorf("package %s: %v", pkg.PkgPath, pkg.Errors[0])
		}
		p.pkgs[pkg.PkgPath] = pkg
		p.addTypes(pkg.Types)
		for _, f := range pkg.Syntax {
			for _, d := range f.Decls {
				fd, ok := d.(*ast.FuncDecl)
				if !ok {
					continue
				}
				obj, _ := pkg.TypesInfo.Defs[fd.Name].(*types.Func)
				if obj == nil {
					continue
				}
				fi := &FuncInfo{pkg: pkg, decl: fd, obj: obj, key: funcKeyOf(obj)}
				p.funcs[fi.key] = fi
			}
		}
	}
	return nil
}

func (p *Program) addTypes(t *types.Package) {
	if t == nil || p.types[t.Path()] != nil {
		return
	}
	p.types[t.Path()] = t
	for _, i := range t.Imports() {
		p.addTypes(i)
	}
}

func (p *Program) lookup(pkgPath, name string) types.Object {
	if pk := p.pkgs[pkgPath]; pk != nil {
		return pk.Types.Scope().Lookup(name)
	}
	if t := p.types[pkgPath]; t != nil {
		return t.Scope().Lookup(name)
	}
	return nil
}

func (p *Program) lookupQualified(fromPkg, pkgName, name string) types.Object {
	var from *types.Package
	if pk := p.pkgs[fromPkg]; pk != nil {
		from = pk.Types
	} else {
		from = p.types[fromPkg]
	}
	if from != nil {
		for _, i := range from.Imports() {
			if i.Name() == pkgName {
				return i.Scope().Lookup(name)
			}
		}
	}
	for _, t := range p.types {
		if t.Name() == pkgName {
			if o := t.Scope().Lookup(name); o != nil {
				return o
			}
		}
	}
	return nil
}

// contractFiles finds the verif_contracts.go files below a module directory.
func contractFiles(modDir string) ([]string, error) {
	var out []string
	err := filepath.Walk(modDir, func(path string, info os.FileInfo, err error) error {
		if err != nil {
			return err
		}
		if info.IsDir() {
			if info.Name() == ".git" || (path != modDir && fileExists(filepath.Join(path, "go.mod"))) {
				return filepath.SkipDir
			}
			return nil
		}
		if info.Name() == "verif_contracts.go" {
			out = append(out, path)
		}
		return nil
	})
	return out, err
}

func fileExists(p string) bool {
	_, err := os.Stat(p)
	return err == nil
}
