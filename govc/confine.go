package main

// C20: the ownership (confinement) discipline that makes the sequential reasoning of all other
// checks sound and excludes data races on library state (DESIGN.md §3):
//
//   - confined fields of a discipline are accessed only by functions reachable from its
//     goroutine entry, and by the constructor before the go statement;
//   - shared fields are written only by the constructor before the go statement (they are
//     immutable while several goroutines can see them; channel operations are not writes);
//   - no function reachable from an API method touches a confined field.
//
// The obligations are decided on the typed AST (frame / ownership conditions, no solver).

import (
	"fmt"
	"go/ast"
	"go/token"
	"go/types"
	"os"
	"path/filepath"
	"sort"
	"strings"
)

func cmdConfine(args []string) int { return 2 }

type fieldAccess struct {
	fn    *FuncInfo
	field string
	write bool
	pos   token.Pos
}

func runConfine(o *Options, sp *Specs, ev *Evidence) (int, *Evidence) {
	if len(sp.Confines) == 0 {
		return undecided(ev, "no confine blocks in the contract files")
	}
	prog := newProgram()
	byDir := map[string]map[string]bool{}
	for _, c := range sp.Confines {
		d, pat := moduleDir(o.repo, c.Pkg)
		if byDir[d] == nil {
			byDir[d] = map[string]bool{}
		}
		byDir[d][pat] = true
	}
	for d, pats := range byDir {
		var ps []string
		for p := range pats {
			ps = append(ps, p)
		}
		sort.Strings(ps)
		if err := prog.load(d, ps); err != nil {
			return undecided(ev, "LOAD-ERROR "+err.Error())
		}
	}
	known := readKnown(filepath.Join(o.verif, "known_findings.txt"), o.prop)
	nOb, nDis := 0, 0
	var violations []string
	var samples []interface{}
	var types_ []string
	for _, c := range sp.Confines {
		pkg := prog.pkgs[c.Pkg]
		if pkg == nil {
			return undecided(ev, "CONTRACT-MISMATCH package "+c.Pkg+" of confine block not loaded")
		}
		obj := pkg.Types.Scope().Lookup(c.Type)
		if obj == nil {
			return undecided(ev, "CONTRACT-MISMATCH no type "+c.Type+" in "+c.Pkg)
		}
		named, _ := obj.Type().(*types.Named)
		st, _ := obj.Type().Underlying().(*types.Struct)
		if named == nil || st == nil {
			return undecided(ev, "CONTRACT-MISMATCH "+c.Type+" is not a struct type")
		}
		types_ = append(types_, strings.TrimPrefix(c.Pkg, modRoot+"/")+"."+c.Type)
		unclassified := map[string]*unclassifiedField{}
		confined, shared := map[string]bool{}, map[string]bool{}
		for _, f := range c.Confined {
			confined[f] = true
		}
		for _, f := range c.Shared {
			shared[f] = true
		}
		// every field must be classified
		for i := 0; i < st.NumFields(); i++ {
			f := st.Field(i).Name()
			nOb++
			if confined[f] && shared[f] {
				violations = append(violations, fmt.Sprintf("%s.%s#confine:field %s is classified both confined and shared", c.Pkg, c.Type, f))
			} else {
				// a field the block does not name (added after the contract was written) has to
				// satisfy one of the two disciplines at all of its accesses (checked below)
				nDis++
			}
		}
		// functions of the package
		var funcs []*FuncInfo
		for _, fi := range prog.funcs {
			if fi.pkg == pkg && fi.decl.Body != nil {
				funcs = append(funcs, fi)
			}
		}
		sort.Slice(funcs, func(a, b int) bool { return funcs[a].key < funcs[b].key })
		callees := func(fi *FuncInfo, before token.Pos) []string {
			var out []string
			ast.Inspect(fi.decl.Body, func(n ast.Node) bool {
				if g, ok := n.(*ast.GoStmt); ok {
					_ = g
					return false // the spawned function runs in another goroutine
				}
				// a function or method of the package that is mentioned without being called
				// (method value, function value handed to a helper) may be called by whoever
				// receives it: it counts as a callee of the function that mentions it
				if id, ok := n.(*ast.Ident); ok && (before == token.NoPos || id.Pos() < before) {
					if fn, ok := pkg.TypesInfo.Uses[id].(*types.Func); ok && fn.Pkg() == pkg.Types {
						out = append(out, funcKeyOf(fn))
					}
				}
				if call, ok := n.(*ast.CallExpr); ok && (before == token.NoPos || call.Pos() < before) {
					var o types.Object
					switch f := ast.Unparen(call.Fun).(type) {
					case *ast.Ident:
						o = pkg.TypesInfo.Uses[f]
					case *ast.SelectorExpr:
						o = pkg.TypesInfo.Uses[f.Sel]
					case *ast.IndexExpr:
						if id, ok := f.X.(*ast.Ident); ok {
							o = pkg.TypesInfo.Uses[id]
						}
					}
					if fn, ok := o.(*types.Func); ok && fn.Pkg() == pkg.Types {
						out = append(out, funcKeyOf(fn))
					}
				}
				return true
			})
			return out
		}
		reach := func(roots []string, firstBefore map[string]token.Pos) map[string]bool {
			seen := map[string]bool{}
			var visit func(k string, before token.Pos)
			visit = func(k string, before token.Pos) {
				fi := prog.funcs[k]
				if fi == nil || fi.decl.Body == nil || seen[k] {
					return
				}
				seen[k] = true
				for _, cal := range callees(fi, before) {
					visit(cal, token.NoPos)
				}
			}
			for _, r := range roots {
				visit(r, firstBefore[r])
			}
			return seen
		}
		var entries, ctors []string
		for _, e := range c.Entries {
			entries = append(entries, c.Pkg+"."+e)
		}
		goPos := map[string]token.Pos{}
		for _, e := range c.Ctors {
			k := c.Pkg + "." + e
			ctors = append(ctors, k)
			if fi := prog.funcs[k]; fi != nil && fi.decl.Body != nil {
				ast.Inspect(fi.decl.Body, func(n ast.Node) bool {
					if g, ok := n.(*ast.GoStmt); ok && goPos[k] == token.NoPos {
						goPos[k] = g.Pos()
					}
					return true
				})
			}
		}
		for _, e := range append(append([]string{}, entries...), ctors...) {
			nOb++
			if prog.funcs[e] == nil {
				violations = append(violations, "CONTRACT-MISMATCH no function "+e)
			} else {
				nDis++
			}
		}
		inGoroutine := reach(entries, nil)
		inCtor := reach(ctors, goPos)
		var others []string
		for _, fi := range funcs {
			if !inGoroutine[fi.key] && !inCtor[fi.key] {
				others = append(others, fi.key)
			}
		}
		// calling a constructor creates a different object: do not follow it
		stopAt := map[string]token.Pos{}
		var othersNoCtor []string
		isCtor := map[string]bool{}
		for _, k := range ctors {
			isCtor[k] = true
		}
		for _, k := range others {
			if !isCtor[k] {
				othersNoCtor = append(othersNoCtor, k)
			}
		}
		_ = stopAt
		fromOthers := reachExcept(prog, othersNoCtor, isCtor, callees)
		// field accesses
		for _, fi := range funcs {
			info := pkg.TypesInfo
			writes := map[ast.Node]bool{}
			markWrite := func(e ast.Expr) {
				for {
					switch t := ast.Unparen(e).(type) {
					case *ast.SelectorExpr:
						writes[t] = true
						e = t.X
						continue
					case *ast.IndexExpr:
						e = t.X
						continue
					case *ast.StarExpr:
						e = t.X
						continue
					}
					return
				}
			}
			ast.Inspect(fi.decl.Body, func(n ast.Node) bool {
				switch s := n.(type) {
				case *ast.AssignStmt:
					for _, l := range s.Lhs {
						markWrite(l)
					}
				case *ast.IncDecStmt:
					markWrite(s.X)
				case *ast.CallExpr:
					if id, ok := s.Fun.(*ast.Ident); ok && (id.Name == "delete" || id.Name == "copy" || id.Name == "clear") && len(s.Args) > 0 {
						if _, isB := info.Uses[id].(*types.Builtin); isB {
							markWrite(s.Args[0])
						}
					}
				case *ast.UnaryExpr:
					if s.Op == token.AND {
						markWrite(s.X) // address taken: treated as a write
					}
				}
				return true
			})
			ast.Inspect(fi.decl.Body, func(n ast.Node) bool {
				sel, ok := n.(*ast.SelectorExpr)
				if !ok {
					return true
				}
				// a map the caller handed in through a shared options field (dsc.opts.Inputs) stays the
				// caller's: the library may read it while the constructor runs, not from its goroutine
				if inner, ok := ast.Unparen(sel.X).(*ast.SelectorExpr); ok {
					if _, isMap := types.Unalias(info.TypeOf(sel)).Underlying().(*types.Map); isMap {
						if s2 := info.Selections[inner]; s2 != nil && s2.Kind() == types.FieldVal {
							rt2 := s2.Recv()
							if p2, ok := types.Unalias(rt2).(*types.Pointer); ok {
								rt2 = p2.Elem()
							}
							if rn2, _ := types.Unalias(rt2).(*types.Named); rn2 != nil && rn2.Origin() == named.Origin() && shared[inner.Sel.Name] {
								ctorPhase := inCtor[fi.key] && (goPos[fi.key] == token.NoPos || sel.Pos() < goPos[fi.key])
								nOb++
								if (inGoroutine[fi.key] || fromOthers[fi.key]) && !ctorPhase {
									violations = append(violations, fmt.Sprintf("%s.%s#confine:%s.%s:in:%s: the map %s belongs to the caller; it is read in %s after the constructor may have returned (a later write of the caller races with it) (%s)",
										strings.TrimPrefix(c.Pkg, modRoot+"/"), c.Type, inner.Sel.Name, sel.Sel.Name, strings.TrimPrefix(fi.name(), strings.TrimPrefix(c.Pkg, modRoot+"/")+"."), types.ExprString(sel), fi.name(), pkg.Fset.Position(sel.Pos()).String()))
								} else {
									nDis++
								}
							}
						}
					}
				}
				s := info.Selections[sel]
				if s == nil || s.Kind() != types.FieldVal {
					return true
				}
				rt := s.Recv()
				if p, ok := types.Unalias(rt).(*types.Pointer); ok {
					rt = p.Elem()
				}
				rn, _ := types.Unalias(rt).(*types.Named)
				if rn == nil || rn.Origin() != named.Origin() {
					return true
				}
				f := sel.Sel.Name
				where := fi.name()
				ctorPhase := inCtor[fi.key] && (goPos[fi.key] == token.NoPos || sel.Pos() < goPos[fi.key])
				name := fmt.Sprintf("%s.%s#confine:%s:in:%s", strings.TrimPrefix(c.Pkg, modRoot+"/"), c.Type, f, strings.TrimPrefix(where, strings.TrimPrefix(c.Pkg, modRoot+"/")+"."))
				nOb++
				bad := ""
				if !confined[f] && !shared[f] {
					asConfined, asShared := "", ""
					if fromOthers[fi.key] {
						asConfined = "accessed in " + where + ", which is reachable from a function outside the goroutine (API method)"
					} else if !inGoroutine[fi.key] && !ctorPhase {
						asConfined = "accessed in " + where + " outside the goroutine and the constructor phase"
					}
					if writes[sel] && !ctorPhase && !(inCtor[fi.key] && !inGoroutine[fi.key] && !fromOthers[fi.key]) {
						asShared = "written in " + where + " after the goroutine may have started"
					}
					u := unclassified[f]
					if u == nil {
						u = &unclassifiedField{}
						unclassified[f] = u
					}
					if asConfined != "" {
						u.notConfined = append(u.notConfined, asConfined+" ("+pkg.Fset.Position(sel.Pos()).String()+")")
					}
					if asShared != "" {
						u.notShared = append(u.notShared, asShared+" ("+pkg.Fset.Position(sel.Pos()).String()+")")
					}
					nDis++
					return true
				}
				switch {
				case confined[f]:
					if fromOthers[fi.key] {
						bad = "confined field " + f + " is accessed in " + where + ", which is reachable from a function outside the goroutine (API method)"
					} else if !inGoroutine[fi.key] && !ctorPhase {
						bad = "confined field " + f + " is accessed in " + where + " outside the goroutine and the constructor phase"
					}
				case shared[f]:
					if writes[sel] && !ctorPhase && !(inCtor[fi.key] && !inGoroutine[fi.key] && !fromOthers[fi.key]) {
						bad = "shared field " + f + " is written in " + where + " after the goroutine may have started"
					}
				}
				if bad == "" {
					nDis++
					if len(samples) < 8 {
						samples = append(samples, map[string]interface{}{"obligation": name, "write": writes[sel]})
					}
					return true
				}
				if what, ok := known[name]; ok {
					fmt.Printf("KNOWN-FINDING: property=%s %s (%s)\n", o.prop, what, name)
					nDis++
					return true
				}
				violations = append(violations, name+": "+bad+" ("+pkg.Fset.Position(sel.Pos()).String()+")")
				return true
			})
		}
		var ufs []string
		for f := range unclassified {
			ufs = append(ufs, f)
		}
		sort.Strings(ufs)
		for _, f := range ufs {
			u := unclassified[f]
			nOb++
			if len(u.notConfined) == 0 || len(u.notShared) == 0 {
				nDis++ // behaves as a confined field, or as a shared one
				continue
			}
			violations = append(violations, fmt.Sprintf("%s.%s#confine:%s: field %s (not named in the confine block) is neither confined to the goroutine - %s - nor immutable once goroutines exist - %s",
				strings.TrimPrefix(c.Pkg, modRoot+"/"), c.Type, f, f, u.notConfined[0], u.notShared[0]))
		}
	}
	ev.Coverage["obligations"] = nOb
	ev.Coverage["discharged"] = nDis
	ev.Coverage["checker_cmd"] = "govc check -prop C20 (confinement obligations decided on the typed AST of /repo's working tree)"
	ev.Coverage["types_checked"] = types_
	ev.Coverage["samples"] = samples
	ev.Coverage["trusted_base"] = []string{
		"govc's call-graph and field-access analysis over go/types",
		"the Go memory model: channel send happens-before the corresponding receive; sync.WaitGroup, context and breaker are race free",
		"ownership of delivered slices is property C08 (heap-write hook), not repeated here",
	}
	ev.Assumptions = []string{
		"user code obeys the documented protocol (a producer does not modify a slice after sending it; Release/feedback only for delivered items)",
		"races inside dependencies and the runtime are out of scope",
	}
	ev.Violations = len(violations)
	if len(violations) > 0 {
		dir := filepath.Join(o.verif, "replays")
		_ = os.MkdirAll(dir, 0o755)
		for i, v := range violations {
			if strings.HasPrefix(v, "CONTRACT-MISMATCH") {
				return undecided(ev, violations...)
			}
			path := filepath.Join(dir, fmt.Sprintf("C20-%s.json", sane(strings.SplitN(v, ":", 2)[0]+fmt.Sprint(i))))
			_ = os.WriteFile(path, []byte(fmt.Sprintf("{\n \"property\": \"C20\",\n \"obligation\": %q,\n \"note\": \"confinement obligation failed; no failing input is produced by this analysis\"\n}\n", v)), 0o644)
			fmt.Printf("VIOLATION property=C20 replay=%s no-failing-input-found\n", path)
		}
		return 1, ev
	}
	fmt.Printf("CONFINE-OK property=C20 confinement obligations=%d discharged=%d types=%d\n", nOb, nDis, len(types_))
	return 0, ev
}

// unclassifiedField collects, for a struct field the confine block does not name, the accesses
// that break the confined discipline and those that break the shared one.
type unclassifiedField struct {
	notConfined []string
	notShared   []string
}

func reachExcept(prog *Program, roots []string, stop map[string]bool, callees func(*FuncInfo, token.Pos) []string) map[string]bool {
	seen := map[string]bool{}
	var visit func(k string)
	visit = func(k string) {
		fi := prog.funcs[k]
		if fi == nil || fi.decl.Body == nil || seen[k] || stop[k] {
			return
		}
		seen[k] = true
		for _, c := range callees(fi, token.NoPos) {
			visit(c)
		}
	}
	for _, r := range roots {
		visit(r)
	}
	return seen
}
