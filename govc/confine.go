package main

func cmdConfine(args []string) int { return 2 }

func runConfine(o *Options, sp *Specs, ev *Evidence) (int, *Evidence) {
	return undecided(ev, "confinement analysis not built yet")
}
