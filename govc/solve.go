package main

// Discharge of queries by z3 4.8.12, z3 5.1.0 (z3-new) and cvc5 (DESIGN.md §4).

import (
	"bytes"
	"context"
	"crypto/sha256"
	"encoding/hex"
	"fmt"
	"os"
	"os/exec"
	"path/filepath"
	"regexp"
	"sort"
	"strings"
	"sync"
	"time"
)

type Result struct {
	Status  string // unsat sat unknown timeout error
	Solver  string
	Seconds float64
	Output  string
	Cached  bool
	CachedSeconds float64 // solver time when the cached answer was computed
	Tried   []string
}

var symRe = regexp.MustCompile(`[A-Za-z_][A-Za-z0-9_!]*`)

// render produces the SMT-LIB text of a query.
func (x *Exec) render(q *Query) string {
	var body strings.Builder
	for _, a := range q.PC {
		body.WriteString("(assert " + a + ")\n")
	}
	if q.Expect == "unsat" {
		body.WriteString("(assert (not " + q.Goal + "))\n")
	}
	used := map[string]bool{}
	for _, s := range symRe.FindAllString(body.String(), -1) {
		used[s] = true
	}
	var b strings.Builder
	for _, n := range x.order {
		if !used[n] {
			continue
		}
		srt := x.decls[n]
		if strings.HasPrefix(srt, "FUN ") {
			continue // declared in the prelude
		}
		if strings.HasPrefix(srt, "DFUN ") {
			fmt.Fprintf(&b, "(declare-fun %s %s)\n", n, srt[5:])
			continue
		}
		fmt.Fprintf(&b, "(declare-const %s %s)\n", n, srt)
	}
	return b.String() + body.String() + "(check-sat)\n"
}

const preludeExtra = `(declare-fun mcard ((Array Int Bool)) Int)
(declare-fun chancap (Int) Int)
(declare-fun pow2m1 (Int) Int)
`

// Facts about pow2m1(n) = 2^n - 1 that need induction (stated, not proved by the solver; listed
// as an assumption in the evidence): non-negative, and a < b implies 2*pow2m1(a)+1 <= pow2m1(b).
const pow2m1Axioms = `(assert (forall ((a Int)) (! (=> (<= 0 a) (<= 0 (pow2m1 a))) :pattern ((pow2m1 a)))))
(assert (forall ((a Int) (b Int)) (! (=> (and (<= 0 a) (< a b)) (<= (+ (* 2 (pow2m1 a)) 1) (pow2m1 b))) :pattern ((pow2m1 a) (pow2m1 b)))))
`

type solverDef struct {
	name string
	argv func(file string, sec int, seed int) []string
}

var solvers = []solverDef{
	{"z3-5.1.0", func(f string, sec, seed int) []string {
		return []string{"z3-new", fmt.Sprintf("-T:%d", sec), fmt.Sprintf("smt.random_seed=%d", seed), fmt.Sprintf("sat.random_seed=%d", seed), f}
	}},
	{"cvc5-1.0", func(f string, sec, seed int) []string {
		return []string{"cvc5", fmt.Sprintf("--tlimit=%d", sec*1000), fmt.Sprintf("--seed=%d", seed), f}
	}},
	{"z3-4.8.12", func(f string, sec, seed int) []string {
		return []string{"z3", fmt.Sprintf("-T:%d", sec), fmt.Sprintf("smt.random_seed=%d", seed), fmt.Sprintf("sat.random_seed=%d", seed), f}
	}},
	// quantifier instantiation is sensitive to the random seed: before an obligation is given
	// up as undecided, z3 5.1.0 is asked again with other seeds (an unsat answer is an unsat
	// answer whatever the seed)
	{"z3-5.1.0", func(f string, sec, seed int) []string {
		return []string{"z3-new", fmt.Sprintf("-T:%d", sec), fmt.Sprintf("smt.random_seed=%d", seed+17), fmt.Sprintf("sat.random_seed=%d", seed+17), f}
	}},
	{"z3-5.1.0", func(f string, sec, seed int) []string {
		return []string{"z3-new", fmt.Sprintf("-T:%d", sec), fmt.Sprintf("smt.random_seed=%d", seed+43), fmt.Sprintf("sat.random_seed=%d", seed+43), "smt.arith.solver=2", f}
	}},
}

func runSolver(sd solverDef, file string, sec, seed int) Result {
	argv := sd.argv(file, sec, seed)
	ctx, cancel := context.WithTimeout(context.Background(), time.Duration(sec+5)*time.Second)
	defer cancel()
	cmd := exec.CommandContext(ctx, argv[0], argv[1:]...)
	var out bytes.Buffer
	cmd.Stdout = &out
	cmd.Stderr = &out
	t0 := time.Now()
	_ = cmd.Run()
	el := time.Since(t0).Seconds()
	o := out.String()
	first := strings.TrimSpace(strings.SplitN(o, "\n", 2)[0])
	st := "unknown"
	switch {
	case first == "unsat":
		st = "unsat"
	case first == "sat":
		st = "sat"
	case first == "timeout" || ctx.Err() != nil || strings.Contains(o, "interrupted by timeout") || strings.Contains(first, "timeout"):
		st = "timeout"
	case first == "unknown":
		st = "unknown"
	default:
		st = "error"
	}
	if len(o) > 4000 {
		tail := ""
		if i := strings.Index(o, "OBSERVED"); i >= 0 {
			tail = o[i:]
			if len(tail) > 8000 {
				tail = tail[:8000]
			}
			tail = "\n...\n" + tail
		}
		o = o[:4000] + tail
	}
	return Result{Status: st, Solver: sd.name, Seconds: el, Output: o}
}

type Discharger struct {
	dir     string
	cache   string
	noCache bool
	timeout int
	seed    int
	all     bool // thorough: ask every solver
	models  bool
}

// solve decides one query text. Solvers are tried in turn until one gives a definite answer.
func (d *Discharger) solve(text string, wantModel bool, observe string) Result {
	h := sha256.Sum256([]byte(text))
	key := hex.EncodeToString(h[:])
	cfile := filepath.Join(d.cache, key[:2], key)
	if !d.noCache && !d.all {
		if b, err := os.ReadFile(cfile); err == nil {
			parts := strings.SplitN(string(b), "\n", 3)
			if len(parts) >= 2 && (parts[0] == "unsat" || (parts[0] == "sat" && (observe == "" || strings.Contains(string(b), "OBSERVED"))) || (!wantModel && parts[0] != "error")) {
				r := Result{Status: parts[0], Solver: parts[1], Cached: true}
				if f := strings.Fields(parts[1]); len(f) == 2 {
					r.Solver = f[0]
					fmt.Sscan(f[1], &r.CachedSeconds)
				}
				if len(parts) == 3 {
					r.Output = parts[2]
				}
				return r
			}
		}
	}
	file := filepath.Join(d.dir, key[:24]+".smt2")
	t := text
	if wantModel {
		t += "(get-model)\n" + observe
	}
	if err := os.WriteFile(file, []byte(t), 0o644); err != nil {
		return Result{Status: "error", Output: err.Error()}
	}
	var res Result
	var tried []string
	var total float64
	definite := false
	for si, sd := range solvers {
		to := d.timeout
		if !wantModel { // cover query: only an unsat answer matters (vacuity), and it comes quickly if at all
			if si > 0 && !d.all {
				break
			}
			to = 1
		}
		r := runSolver(sd, file, to, d.seed)
		total += r.Seconds
		tried = append(tried, fmt.Sprintf("%s=%s(%.2fs)", sd.name, r.Status, r.Seconds))
		if r.Status == "unsat" || r.Status == "sat" {
			if !definite {
				res = r
				definite = true
			} else if res.Status != r.Status {
				res.Status = "error"
				res.Output = "solvers disagree: " + strings.Join(tried, " ")
			}
			if !d.all {
				break
			}
		} else if !definite {
			res = r
		}
	}
	res.Seconds = total
	res.Tried = tried
	if (definite || !wantModel) && !d.noCache && res.Status != "error" {
		_ = os.MkdirAll(filepath.Dir(cfile), 0o755)
		_ = os.WriteFile(cfile, []byte(res.Status+"\n"+res.Solver+fmt.Sprintf(" %.3f", res.Seconds)+"\n"+res.Output), 0o644)
	}
	if (res.Status == "unsat" || (res.Status == "sat" && !wantModel)) && os.Getenv("VERIF_KEEP") == "" {
		_ = os.Remove(file)
	}
	return res
}

type job struct {
	q    *Query
	text string
	res  Result
}

// observeCmd: the get-value command for the observation terms of q all of whose symbols are
// declared in the query text (an undeclared heap component is unconstrained: any value fits).
func observeCmd(q *Query, text string) string {
	if len(q.Observe) == 0 {
		return ""
	}
	var ts []string
	for _, o := range q.Observe {
		ok := true
		for _, sym := range symRe.FindAllString(o.Term, -1) {
			switch sym {
			case "select", "at", "sl_len", "sl_arr", "sl_off", "sl_cap":
				continue
			}
			if !strings.Contains(text, "(declare-const "+sym+" ") && !strings.Contains(text, "(declare-fun "+sym+" ") {
				ok = false
			}
		}
		if ok {
			ts = append(ts, o.Term)
		}
	}
	if len(ts) == 0 {
		return ""
	}
	return "(echo \"OBSERVED\")\n(get-value (" + strings.Join(ts, " ") + "))\n"
}

func (d *Discharger) solveAll(jobs []*job, workers int) {
	// identical query texts are solved once
	type group struct {
		text    string
		model   bool
		observe string
		jobs    []*job
		res     Result
	}
	byText := map[string]*group{}
	var groups []*group
	for _, j := range jobs {
		if j.q.Broken != "" {
			j.res = Result{Status: "unknown", Solver: "none", Output: "CONTRACT-MISMATCH " + j.q.Broken}
			continue
		}
		g := byText[j.text]
		if g == nil {
			g = &group{text: j.text}
			byText[j.text] = g
			groups = append(groups, g)
		}
		g.jobs = append(g.jobs, j)
		if j.q.Expect == "unsat" {
			g.model = true
			if g.observe == "" {
				g.observe = observeCmd(j.q, j.text)
			}
		}
	}
	var wg sync.WaitGroup
	ch := make(chan *group)
	for i := 0; i < workers; i++ {
		wg.Add(1)
		go func() {
			defer wg.Done()
			for g := range ch {
				g.res = d.solve(g.text, g.model, g.observe)
			}
		}()
	}
	// larger queries first
	sort.SliceStable(groups, func(a, b int) bool { return len(groups[a].text) > len(groups[b].text) })
	for _, g := range groups {
		ch <- g
	}
	close(ch)
	wg.Wait()
	for _, g := range groups {
		for i, j := range g.jobs {
			j.res = g.res
			if i > 0 {
				j.res.Seconds = 0
				j.res.Cached = true
			}
		}
	}
}
