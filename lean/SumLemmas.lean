/-
Machine-checked statements of the lemma schemas whose ground instances govc emits into its
queries (DESIGN.md §6.2, §12.1): finite map sums (msum), restricted sums (msumR), prefix sums and
prefix sets of slices (lsum, pset) and pow2m1. Checked by Lean 4 + Mathlib; what stays trusted
is that the instances the generator writes are instances of these statements.

Maps are finite: a domain `d : Finset ℤ` and a value function `v : ℤ → ℤ`; `nn` clamps at 0 as
the SMT function of the same name does (values of unsigned type are non-negative anyway).
-/
import Mathlib

open Finset

namespace Govc

def nn (x : ℤ) : ℤ := max x 0

theorem nn_nonneg (x : ℤ) : 0 ≤ nn x := le_max_right _ _

def msum (d : Finset ℤ) (v : ℤ → ℤ) : ℤ := ∑ k ∈ d, nn (v k)

def msumR (d : Finset ℤ) (v : ℤ → ℤ) (s : Finset ℤ) : ℤ := ∑ k ∈ d ∩ s, nn (v k)

theorem msum_nonneg (d : Finset ℤ) (v : ℤ → ℤ) : 0 ≤ msum d v :=
  Finset.sum_nonneg (fun k _ => nn_nonneg (v k))

/-- L_empty: the sum of an empty (or nil) map is 0 -/
theorem L_empty (v : ℤ → ℤ) : msum ∅ v = 0 := by simp [msum]

/-- L_ge: an entry is at most the sum -/
theorem L_ge (d : Finset ℤ) (v : ℤ → ℤ) (k : ℤ) (hk : k ∈ d) : nn (v k) ≤ msum d v :=
  Finset.single_le_sum (f := fun k => nn (v k)) (fun i _ => nn_nonneg (v i)) hk

/-- L_del: deleting a key removes its entry from the sum -/
theorem L_del (d : Finset ℤ) (v : ℤ → ℤ) (k : ℤ) :
    msum (d.erase k) v = msum d v - (if k ∈ d then nn (v k) else 0) := by
  unfold msum
  by_cases hk : k ∈ d
  · rw [if_pos hk, ← Finset.add_sum_erase d (fun k => nn (v k)) hk]; ring
  · rw [if_neg hk, Finset.erase_eq_of_notMem hk]; ring

/-- L_upd: writing m[k] = x replaces the entry of k in the sum -/
theorem L_upd (d : Finset ℤ) (v : ℤ → ℤ) (k x : ℤ) :
    msum (insert k d) (Function.update v k x) =
      msum d v - (if k ∈ d then nn (v k) else 0) + nn x := by
  have hrest : ∑ j ∈ d.erase k, nn (Function.update v k x j) = ∑ j ∈ d.erase k, nn (v j) := by
    apply Finset.sum_congr rfl
    intro j hj
    rw [Function.update_of_ne (Finset.ne_of_mem_erase hj)]
  have hins : insert k d = insert k (d.erase k) := by
    ext j; by_cases h : j = k <;> simp [h]
  have hnot : k ∉ d.erase k := Finset.notMem_erase k d
  unfold msum
  rw [hins, Finset.sum_insert hnot, hrest, Function.update_self]
  have := L_del d v k
  unfold msum at this
  rw [this]; ring

/-- L_zero and its converse -/
theorem L_zero (d : Finset ℤ) (v : ℤ → ℤ) : (∀ k ∈ d, nn (v k) = 0) ↔ msum d v = 0 := by
  unfold msum
  constructor
  · intro h; exact Finset.sum_eq_zero h
  · intro h
    exact (Finset.sum_eq_zero_iff_of_nonneg (fun k _ => nn_nonneg (v k))).mp h

/-- restricted sums: the three axioms added to queries that mention prefix sets -/
theorem L_Rempty (d : Finset ℤ) (v : ℤ → ℤ) : msumR d v ∅ = 0 := by simp [msumR]

theorem L_Rstep (d : Finset ℤ) (v : ℤ → ℤ) (s : Finset ℤ) (k : ℤ) :
    msumR d v (insert k s) = msumR d v s + (if k ∈ d ∧ k ∉ s then nn (v k) else 0) := by
  unfold msumR
  by_cases hs : k ∈ s
  · simp [hs, Finset.insert_eq_of_mem hs]
  · by_cases hd : k ∈ d
    · have : d ∩ insert k s = insert k (d ∩ s) := by
        ext j; simp only [mem_inter, mem_insert]; constructor
        · rintro ⟨h1, h2 | h2⟩
          · left; exact h2
          · right; exact ⟨h1, h2⟩
        · rintro (h | ⟨h1, h2⟩)
          · exact ⟨h ▸ hd, Or.inl h⟩
          · exact ⟨h1, Or.inr h2⟩
      have hn : k ∉ d ∩ s := fun h => hs (mem_inter.mp h).2
      rw [this, Finset.sum_insert hn]; simp [hd, hs]; ring
    · have : d ∩ insert k s = d ∩ s := by
        ext j; simp only [mem_inter, mem_insert]; constructor
        · rintro ⟨h1, h2 | h2⟩
          · exact absurd (h2 ▸ h1) hd
          · exact ⟨h1, h2⟩
        · rintro ⟨h1, h2⟩; exact ⟨h1, Or.inr h2⟩
      rw [this]; simp [hd]

theorem L_Rle (d : Finset ℤ) (v : ℤ → ℤ) (s : Finset ℤ) : 0 ≤ msumR d v s ∧ msumR d v s ≤ msum d v := by
  unfold msumR msum
  refine ⟨Finset.sum_nonneg (fun k _ => nn_nonneg (v k)), ?_⟩
  exact Finset.sum_le_sum_of_subset_of_nonneg Finset.inter_subset_left (fun k _ _ => nn_nonneg (v k))

theorem L_Rall (d : Finset ℤ) (v : ℤ → ℤ) (s : Finset ℤ) (h : ∀ k ∈ d, k ∈ s) : msumR d v s = msum d v := by
  unfold msumR msum
  have : d ∩ s = d := Finset.inter_eq_left.mpr h
  rw [this]

/-- prefix sums and prefix sets of a slice: `a` is the backing array, `off` the offset -/
def lsum (a : ℤ → ℤ) (off : ℤ) : ℕ → ℤ
  | 0 => 0
  | n + 1 => lsum a off n + a (off + n)

def pset (a : ℤ → ℤ) (off : ℤ) : ℕ → Finset ℤ
  | 0 => ∅
  | n + 1 => insert (a (off + n)) (pset a off n)

theorem pset_mem (a : ℤ → ℤ) (off : ℤ) (n : ℕ) (k : ℤ) :
    k ∈ pset a off n ↔ ∃ j : ℕ, j < n ∧ a (off + j) = k := by
  induction n with
  | zero => simp [pset]
  | succ n ih =>
    simp only [pset, mem_insert, ih]
    constructor
    · rintro (h | ⟨j, hj, hk⟩)
      · exact ⟨n, Nat.lt_succ_self n, h.symm⟩
      · exact ⟨j, Nat.lt_succ_of_lt hj, hk⟩
    · rintro ⟨j, hj, hk⟩
      rcases Nat.lt_succ_iff_lt_or_eq.mp hj with h | h
      · exact Or.inr ⟨j, h, hk⟩
      · left; rw [← hk, h]

theorem lsum_mono (a : ℤ → ℤ) (off : ℤ) (h : ∀ i, 0 ≤ a i) (i n : ℕ) (hin : i ≤ n) :
    lsum a off i ≤ lsum a off n := by
  induction n with
  | zero => simp [Nat.le_zero.mp hin]
  | succ n ih =>
    rcases Nat.le_succ_iff.mp hin with h1 | h1
    · have := ih h1; simp only [lsum]; have := h (off + n); omega
    · rw [h1]

/-- pow2m1 n = 2^n - 1 -/
def pow2m1 (n : ℕ) : ℤ := 2 ^ n - 1

theorem pow2m1_zero : pow2m1 0 = 0 := by simp [pow2m1]

theorem pow2m1_succ (n : ℕ) : pow2m1 (n + 1) = 2 * pow2m1 n + 1 := by
  unfold pow2m1; ring

theorem pow2m1_nonneg (n : ℕ) : 0 ≤ pow2m1 n := by
  unfold pow2m1
  have : (1 : ℤ) ≤ 2 ^ n := one_le_pow₀ (by norm_num)
  omega

theorem pow2m1_step_le (a b : ℕ) (h : a < b) : 2 * pow2m1 a + 1 ≤ pow2m1 b := by
  rw [← pow2m1_succ]
  unfold pow2m1
  have : (2 : ℤ) ^ (a + 1) ≤ 2 ^ b := pow_le_pow_right₀ (by norm_num) h
  omega

end Govc
