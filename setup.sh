#!/bin/sh
# Builds the verifier from the vendored sources in /verif/govc (offline).
set -e
cd "$(dirname "$0")/govc"
export GOFLAGS=-mod=vendor GOPROXY=off GOSUMDB=off GOTOOLCHAIN=local GOWORK=off
mkdir -p ../bin
go build -o ../bin/govc .
