#!/usr/bin/env python3
"""Must-fail / must-pass corpus (DESIGN.md §4): every patch under selftest/mutants/<prop>/ is
applied to a scratch copy of /repo's working tree and the check for <prop> must report a
VIOLATION; every patch under selftest/benign/ must leave the listed properties green.
Nothing is written to /repo; scratch copies live under a temporary directory and are removed."""
import argparse, glob, os, shutil, subprocess, sys, tempfile, json, concurrent.futures

VERIF = os.path.dirname(os.path.dirname(os.path.abspath(__file__)))

def run_one(kind, prop, patch):
    tmp = tempfile.mkdtemp(prefix="govc-selftest-")
    try:
        repo = os.path.join(tmp, "repo")
        subprocess.run(["rsync", "-a", "--exclude", ".git", os.environ.get("SELFTEST_REPO", "/repo").rstrip("/") + "/", repo + "/"], check=True)
        r = subprocess.run(["patch", "-p1", "-s", "-d", repo, "-i", patch], capture_output=True, text=True)
        if r.returncode != 0:
            return (kind, prop, patch, "PATCH-FAILED", r.stdout + r.stderr)
        env = dict(os.environ, VERIF_NOEVIDENCE="1")
        r = subprocess.run([os.path.join(VERIF, "bin", "govc"), "check", "-prop", prop, "-repo", repo, "-verif", VERIF],
                           capture_output=True, text=True, env=env)
        out = r.stdout + r.stderr
        viol = [l for l in out.splitlines() if l.startswith("VIOLATION property=" + prop)]
        if kind == "mutant":
            ok = r.returncode == 1 and viol
            expect = [l.split(":", 1)[1].strip() for l in open(patch) if l.startswith("# expect:")]
            if ok and expect and not any(e in v for e in expect for v in viol):
                return (kind, prop, patch, "KILLED-BY-OTHER-OBLIGATION", out[-1500:])
            return (kind, prop, patch, "KILLED" if ok else "SURVIVED(rc=%d)" % r.returncode, out[-1500:])
        ok = r.returncode == 0 and not viol
        return (kind, prop, patch, "GREEN" if ok else "FALSE-ALARM(rc=%d)" % r.returncode, out[-1500:])
    finally:
        shutil.rmtree(tmp, ignore_errors=True)

def main():
    ap = argparse.ArgumentParser()
    ap.add_argument("--prop")
    ap.add_argument("--report-only", action="store_true")
    ap.add_argument("-v", action="store_true")
    a = ap.parse_args()
    jobs = []
    for d in sorted(glob.glob(os.path.join(VERIF, "selftest", "mutants", "*"))):
        prop = os.path.basename(d)
        if a.prop and prop != a.prop:
            continue
        for p in sorted(glob.glob(os.path.join(d, "*.patch"))):
            jobs.append(("mutant", prop, p))
    for p in sorted(glob.glob(os.path.join(VERIF, "selftest", "benign", "*.patch"))):
        props = []
        for l in open(p):
            if l.startswith("# props:"):
                props = l.split(":", 1)[1].split()
        for prop in props:
            if a.prop and prop != a.prop:
                continue
            jobs.append(("benign", prop, p))
    bad = 0
    with concurrent.futures.ThreadPoolExecutor(max_workers=4) as ex:
        for kind, prop, patch, verdict, out in ex.map(lambda j: run_one(*j), jobs):
            good = verdict in ("KILLED", "GREEN")
            bad += 0 if good else 1
            print("%-7s %-4s %-55s %s" % (kind, prop, os.path.relpath(patch, os.path.join(VERIF, "selftest")), verdict))
            if (not good or a.v):
                print("    " + "\n    ".join(out.strip().splitlines()[-12:]))
    print("selftest: %d cases, %d not as expected" % (len(jobs), bad))
    sys.exit(0 if (bad == 0 or a.report_only) else 1)

if __name__ == "__main__":
    main()
